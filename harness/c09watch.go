package harness

// C09 oracle C: the real polling watcher on the simulated clock (bounded liveness).
// Edits land at arbitrary moments, including in the middle of a build; once they stop,
// within 12 simulated seconds the last result delivered to an end callback must equal
// a fresh build of the final tree.

import (
	"fmt"
	"strings"
	"time"

	"github.com/evanw/esbuild/pkg/api"
	"github.com/evanw/esbuild/pkg/verifsim"
)

var editGaps = []time.Duration{0, 5 * time.Millisecond, 50 * time.Millisecond, 120 * time.Millisecond, 400 * time.Millisecond, 2 * time.Second, 4 * time.Second}

func scenarioC09Watcher(rc *RunCtx) *Violation {
	g := rc.G
	p := GenProject(g, "/p")
	o := GenOptions(g, p)
	o.Metafile = true
	o.Write = g.chance(30)
	o.AllowOverwrite = false
	if o.Outdir == 2 || o.Outdir == 4 {
		o.Outdir = 0 // outputs inside the watched sources would retrigger the watcher forever
	}
	if o.Inject {
		p.Extra["src/inject.js"] = "export let injected = 'INJ';\nconsole.log('inject');\n"
	}
	d := newDisk(g)
	d.Gran = granChoices[g.n(len(granChoices))]
	p.WriteTo(d, false)
	opts := o.Build(p)
	var last *Canon
	builds := 0
	opts.Plugins = []api.Plugin{{Name: "verif-watch", Setup: func(b api.PluginBuild) {
		b.OnEnd(func(r *api.BuildResult) (api.OnEndResult, error) {
			last = MakeCanon(*r, p.Root)
			builds++
			return api.OnEndResult{}, nil
		})
	}}}
	nEdits := 1 + g.n(6)
	inPlace := g.n(2) == 0
	var hist []string
	var final *verifsim.Disk
	watchErr := ""
	s := rc.Sim(SimOpts{Disk: d, MaxSteps: 12000000}, func() {
		ctx, cerr := api.Context(opts)
		if cerr != nil {
			watchErr = cerr.Error()
			return
		}
		if err := ctx.Watch(api.WatchOptions{Delay: g.n(3) * 40}); err != nil {
			watchErr = err.Error()
			ctx.Dispose()
			return
		}
		for i := 0; i < nEdits; i++ {
			if gap := editGaps[g.n(len(editGaps))]; gap > 0 {
				verifsim.Sleep(gap)
			} else {
				verifsim.Yield("harness", "edit")
			}
			hist = append(hist, ApplyEdit(g, p, d, inPlace))
		}
		final = d.Snapshot()
		verifsim.Sleep(12 * time.Second)
		ctx.Dispose()
	})
	rc.Stats.Builds += builds
	rc.Stats.SimBuilds += builds
	rc.Note(fmt.Sprintf("watcher proj:%x hist:%x", fnv64(fmt.Sprint(describeProject(p, o))), fnv64(strings.Join(hist, "|"))))
	rc.Sample("project", describeProject(p, o))
	rc.Sample("watcher_history", hist)
	rc.Sample("watcher_builds", builds)
	rc.Probe("watcher_run")
	rc.Stats.Probes["watcher_builds"] += builds
	if watchErr != "" {
		rc.Probe("context_error")
		return nil
	}
	if s.Panic != nil {
		rc.Probe("history_aborted")
		return nil
	}
	if last == nil || final == nil {
		return &Violation{Class: "watch-no-build", Key: "watcher", Detail: "watch mode delivered no build result at all; history: " + strings.Join(hist, " || ")}
	}
	rec := &BuildRec{Step: nEdits, Opts: o.Build(p), Model: p, Snap: final}
	f := FreshBuild(rc, rec)
	if f.Aborted != "" {
		return nil
	}
	if class, detail := last.Diff(f.Canon); class != "" {
		if strings.HasSuffix(class, "-order") && orderKey(last, f.Canon, class) == "locationless-only" {
			return nil
		}
		return &Violation{Class: "watch-stale-result-" + class, Key: class,
			Detail: fmt.Sprintf("12 simulated seconds after the last edit the latest result delivered by watch mode (%d builds) still differs from a fresh build of the final tree: %s; edits: %s", builds, detail, strings.Join(hist, " || "))}
	}
	rc.Probe("watcher_converged")
	return nil
}
