package harness

// C16 — no crash, hang or internal error: the fault- and schedule-dependent part
// (DESIGN §4.3). Storage faults are applied to valid generated projects; input
// generation over all byte strings (fuzzing) is not what is claimed here.

import (
	"fmt"
	"sort"
	"strings"
	"time"

	"github.com/evanw/esbuild/pkg/api"
	"github.com/evanw/esbuild/pkg/verifsim"
)

func init() { scenarios["C16"] = scenarioC16 }

func badDiagnostics(r api.BuildResult) string {
	for _, m := range append(append([]api.Message{}, r.Errors...), r.Warnings...) {
		if strings.HasPrefix(m.Text, "panic:") || strings.Contains(m.Text, "Internal error") || strings.Contains(m.Text, "runtime error:") {
			return m.Text
		}
	}
	return ""
}

func abnormal(s *verifsim.Sim, what string) *Violation {
	if s.Panic == nil {
		return nil
	}
	txt := panicText(s)
	class := "abnormal-termination"
	switch {
	case strings.Contains(txt, "deadlock") && strings.Contains(txt, "main bubble goroutine has exited"):
		class = "goroutine-leak"
	case strings.Contains(txt, "deadlock"):
		class = "deadlock"
	case strings.Contains(txt, "step budget"):
		class = "livelock-step-budget"
	}
	return &Violation{Class: class, Key: class, Detail: what + ": " + trunc(txt, 1500)}
}

// garbage writes corrupted versions of some project files to the disk (the model is
// left alone, so Project.WriteTo restores them): a torn or concurrent write as the
// build sees it.
// danglingLinks: paths that garbage() turned into dangling symbolic links; healing removes
// the links before the files are written again (a write would go through the link).
var danglingLinks []string
var garbageLinks, garbageFiles int

func healLinks(d *verifsim.Disk) {
	for _, l := range danglingLinks {
		d.RemoveAll(l)
	}
	danglingLinks = danglingLinks[:0]
}

func garbage(g G, p *Project, d *verifsim.Disk, tape *verifsim.Tape) []string {
	files := p.Render()
	names := make([]string, 0, len(files))
	for k := range files {
		names = append(names, k)
	}
	sort.Strings(names)
	var out []string
	n := 1 + g.n(4)
	for i := 0; i < n; i++ {
		k := names[g.n(len(names))]
		if g.n(6) == 0 {
			// the file is replaced by a symbolic link whose target does not exist (or that
			// points at itself): lstat succeeds, following the link fails
			d.RemoveAll(p.Root + "/" + k)
			target := "gone-" + fmt.Sprint(g.n(100))
			if g.n(3) == 0 {
				target = k[strings.LastIndex(k, "/")+1:]
			}
			d.Symlink(target, p.Root+"/"+k)
			danglingLinks = append(danglingLinks, p.Root+"/"+k)
			out = append(out, fmt.Sprintf("dangling-symlink(%s) %s", target, k))
			garbageLinks++
			continue
		}
		c, how := verifsim.Corrupt(tape, []byte(files[k]))
		if g.n(3) == 0 {
			c2, how2 := verifsim.Corrupt(tape, c)
			c, how = c2, how+"+"+how2
		}
		d.PutFile(p.Root+"/"+k, c, g.n(2) == 0)
		out = append(out, fmt.Sprintf("corrupt(%s) %s", how, k))
		garbageFiles++
	}
	return out
}

func scenarioC16(rc *RunCtx) *Violation {
	danglingLinks = danglingLinks[:0]
	g := rc.G
	p := GenProject(g, "/p")
	o := GenOptions(g, p)
	o.Write = g.chance(20)
	o.AllowOverwrite = false // a build that replaces its own inputs changes "the same tree" (see DESIGN §13)
	if o.Inject {
		p.Extra["src/inject.js"] = "export let injected = 'INJ';\nconsole.log('inject');\n"
	}
	// make source-map comments and configs common: they are among the inputs C16 names
	for _, m := range p.Mods {
		if g.chance(30) {
			m.Feat |= FeatSourceMapComment
		}
	}
	if p.TS == nil && g.chance(50) {
		p.TS = &TSConfig{JSX: g.n(4), Paths: true, Version: 1}
	}
	p.HasRootPJ = true
	ftape := verifsim.NewTape(uint64(g.n(1<<30)), 1<<16)
	under := func(path string) bool { return strings.HasPrefix(path, p.Root+"/") || path == p.Root }
	mkPlan := func() *verifsim.FaultPlan {
		pl := &verifsim.FaultPlan{Tape: ftape, Filter: under}
		if g.n(4) == 0 {
			// single-fault sweep position
			pl.AtKind = []int{verifsim.FReadErr, verifsim.FVanish, verifsim.FCorrupt, verifsim.FReaddirErr, verifsim.FStatErr}[g.n(5)]
			pl.At = 1 + g.n(60)
			return pl
		}
		kinds := []int{verifsim.FReadErr, verifsim.FVanish, verifsim.FCorrupt, verifsim.FReaddirErr, verifsim.FStatErr}
		for _, k := range kinds {
			if g.n(2) == 0 {
				pl.Rate[k] = 10 + g.n(150)
			}
		}
		return pl
	}
	rc.Note(fmt.Sprintf("proj:%x", fnv64(fmt.Sprint(describeProject(p, o)))))
	rc.Sample("project", describeProject(p, o))

	if g.n(4) == 0 {
		// ---- mode C: cancellation sweep: one cancellation before every poll of the
		// cancel flag that an uncancelled build performs (bounded-exhaustive for this
		// workload); afterwards the context must still build like a fresh one ----
		rc.Sample("mode", "cancellation sweep over every cancel-flag poll of one build")
		if len(p.Entries) < 2 {
			for i := 1; i < len(p.Mods) && len(p.Entries) < 3; i++ {
				if isJS(p.Mods[i].Kind) && !entryOf(p, i) {
					p.Entries = append(p.Entries, i)
				}
			}
		}
		if g.n(2) == 0 {
			o.Splitting = false
		}
		d := newDisk(g)
		p.WriteTo(d, false)
		opts := o.Build(p)
		var ref api.BuildResult
		polls := 0
		s := rc.Sim(SimOpts{Disk: d.Snapshot(), Canonical: true}, func() {
			verifsim.SetTrigger("cancelpoll", 1<<30)
			ref = api.Build(opts)
			polls = verifsim.TriggerCount()
		})
		rc.Stats.Builds++
		rc.Stats.SimBuilds++
		if v := abnormal(s, "clean reference build"); v != nil {
			return v
		}
		refC := MakeCanon(ref, p.Root)
		rc.Stats.Probes["cancel_poll_points"] += polls
		dd := d.Snapshot()
		var results []api.BuildResult
		var after api.BuildResult
		s = rc.Sim(SimOpts{Disk: dd, MaxSteps: 8000000}, func() {
			ctx, cerr := api.Context(opts)
			if cerr != nil {
				return
			}
			for k := 1; k <= polls+1; k++ {
				var r api.BuildResult
				cancelRebuild(ctx, 999+k, func(x api.BuildResult) { r = x })
				results = append(results, r)
			}
			after = ctx.Rebuild()
			ctx.Dispose()
		})
		rc.Stats.Builds += len(results) + 1
		rc.Stats.SimBuilds += len(results) + 1
		if v := abnormal(s, fmt.Sprintf("cancellation sweep over %d poll points", polls)); v != nil {
			return v
		}
		for k, r := range results {
			if bad := badDiagnostics(r); bad != "" {
				return &Violation{Class: "internal-error-diagnostic", Key: "cancel", Detail: fmt.Sprintf("build cancelled before poll %d reports: %s", k+1, trunc(bad, 800))}
			}
			if strings.Contains(errTexts(r), "The build was canceled") {
				rc.Probe("cancel_during_build")
				rc.Stats.Faults["cancellation_during_build"]++
			}
		}
		if len(results) > 0 {
			if class, detail := refC.Diff(MakeCanon(after, p.Root)); class != "" && !(strings.HasSuffix(class, "-order")) {
				return &Violation{Class: "unusable-after-faults-" + class, Key: class, Detail: fmt.Sprintf("a rebuild after %d cancelled rebuilds differs from the clean reference: %s", len(results), detail)}
			}
			rc.Probe("cancel_sweep_done")
		}
		rc.Note(fmt.Sprintf("cancelsweep:%d", polls))
		return nil
	}
	if g.n(2) == 0 {
		// ---- mode B: one-shot builds; faults may corrupt what is read ----
		rc.Sample("mode", "one-shot builds with read faults and corruption")
		d := newDisk(g)
		p.WriteTo(d, false)
		opts := o.Build(p)
		var ref api.BuildResult
		s := rc.Sim(SimOpts{Disk: d.Snapshot(), Canonical: true}, func() { ref = api.Build(opts) })
		rc.Stats.Builds++
		rc.Stats.SimBuilds++
		if v := abnormal(s, "clean reference build"); v != nil {
			return v
		}
		if bad := badDiagnostics(ref); bad != "" {
			return &Violation{Class: "internal-error-diagnostic", Key: "clean", Detail: "clean build reports: " + bad}
		}
		refC := MakeCanon(ref, p.Root)
		rounds := 2 + g.n(4)
		var faultsSeen []string
		for i := 0; i < rounds; i++ {
			dd := d.Snapshot()
			pl := mkPlan()
			dd.SetPlan(pl)
			cancelAfter := -1
			if g.n(4) == 0 {
				cancelAfter = drawCancel(g)
			}
			var faulted, after api.BuildResult
			s := rc.Sim(SimOpts{Disk: dd}, func() {
				if cancelAfter >= 0 {
					ctx, cerr := api.Context(opts)
					if cerr != nil {
						return
					}
					cancelRebuild(ctx, cancelAfter, func(r api.BuildResult) { faulted = r })
					ctx.Dispose()
				} else {
					faulted = api.Build(opts)
				}
				dd.SetPlan(nil)
				// the process must still be usable: a clean build afterwards equals the reference
				after = api.Build(opts)
			})
			rc.Stats.Builds += 2
			rc.Stats.SimBuilds += 2
			for _, op := range dd.TakeLog() {
				if op.Fault != "" {
					faultsSeen = append(faultsSeen, op.Fault+"@"+op.Path)
				}
			}
			if v := abnormal(s, fmt.Sprintf("round %d (faults %v, cancelAfter %d)", i, faultsSeen, cancelAfter)); v != nil {
				return v
			}
			if bad := badDiagnostics(faulted); bad != "" {
				return &Violation{Class: "internal-error-diagnostic", Key: "faulted", Detail: fmt.Sprintf("build under faults %v reports: %s", faultsSeen, trunc(bad, 800))}
			}
			if len(faulted.Errors) > 0 {
				rc.Probe("faulted_build_reported_errors")
			}
			if strings.Contains(errTexts(faulted), "The build was canceled") {
				rc.Probe("cancel_during_build")
				rc.Stats.Faults["cancellation_during_build"]++
			}
			if class, detail := refC.Diff(MakeCanon(after, p.Root)); class != "" {
				return &Violation{Class: "unusable-after-faults-" + class, Key: class,
					Detail: fmt.Sprintf("a clean build after a build under faults %v differs from the clean reference: %s", faultsSeen, detail)}
			}
		}
		rc.Note("faults:" + fmt.Sprintf("%x", fnv64(strings.Join(faultsSeen, "|"))))
		rc.Sample("faults_delivered", faultsSeen)
		return nil
	}

	// ---- mode A: one context; garbage written to inputs, transient read errors and
	// cancellation in odd steps; the tree is healed in even steps and the rebuild must
	// equal a fresh build ----
	rc.Sample("mode", "context history with garbage inputs, transient read errors, cancellation; healed rebuild == fresh build")
	d := newDisk(g)
	d.Gran = granChoices[g.n(len(granChoices))]
	p.WriteTo(d, false)
	var notes []string
	cfg := HistCfg{Steps: 2 * (1 + g.n(4)), EditsPerStep: 2, InPlace: g.n(2) == 0}
	cfg.SkipGeneric = func(step int) bool { return step%2 == 0 || g.n(2) == 0 }
	cfg.ExtraEdit = func(step int, pp *Project, dd *verifsim.Disk) string {
		if step%2 == 1 {
			es := garbage(g, pp, dd, ftape)
			rc.Stats.Faults["garbage_written_over_input"] += garbageFiles
			rc.Stats.Faults["input_replaced_by_dangling_symlink"] += garbageLinks
			garbageFiles, garbageLinks = 0, 0
			notes = append(notes, es...)
			return strings.Join(es, ", ")
		}
		// heal: restore every file of the model
		healLinks(dd)
		pp.WriteTo(dd, false)
		return "heal"
	}
	if g.n(2) == 0 {
		cfg.InitialSleep = 5 * time.Second // the first reads then have usable modification keys
	}
	faultFirst := g.n(3) == 0
	cfg.Plan = func(step int) *verifsim.FaultPlan {
		if (step%2 == 1 && g.n(2) == 0) || (step == 0 && faultFirst) {
			pl := mkPlan()
			pl.Rate[verifsim.FCorrupt] = 0 // corruption is delivered as garbage on disk here (see DESIGN §4.3)
			if pl.AtKind == verifsim.FCorrupt {
				pl.AtKind = verifsim.FReadErr
			}
			return pl
		}
		return nil
	}
	cfg.Cancel = func(step int) int {
		if step%2 == 1 && g.n(3) == 0 {
			return drawCancel(g)
		}
		return -1
	}
	recs, s := RunHistory(rc, p, o, d, cfg)
	rc.Sample("history", histSample(recs))
	if v := abnormal(s, "context history "+strings.Join(notes, ", ")); v != nil {
		return v
	}
	var hist []string
	for _, r := range recs {
		hist = append(hist, strings.Join(r.Edits, "; "))
		if r.Aborted != "" {
			rc.Probe("context_error")
			return nil
		}
		if bad := badDiagnostics(r.Res); bad != "" {
			return &Violation{Class: "internal-error-diagnostic", Key: "history", Detail: fmt.Sprintf("rebuild %d reports: %s; history: %s", r.Step, trunc(bad, 800), strings.Join(hist, " || "))}
		}
		for _, op := range r.Log {
			if op.Fault != "" {
				notes = append(notes, op.Fault+"@"+op.Path)
			}
		}
		if strings.Contains(errTexts(r.Res), "The build was canceled") {
			rc.Probe("cancel_during_build")
				rc.Stats.Faults["cancellation_during_build"]++
		}
		if r.Step%2 == 1 || r.Faulted {
			if len(r.Res.Errors) > 0 {
				rc.Probe("faulted_build_reported_errors")
			}
			continue
		}
		// healed step: the context must behave like a fresh one
		f := FreshBuild(rc, r)
		if f.Aborted != "" {
			return &Violation{Class: "abnormal-termination", Key: "fresh", Detail: "fresh build of a healed tree: " + trunc(f.Aborted, 800)}
		}
		if class, detail := r.Canon.Diff(f.Canon); class != "" {
			if strings.HasSuffix(class, "-order") && orderKey(r.Canon, f.Canon, class) == "locationless-only" {
				continue
			}
			return &Violation{Class: "unusable-after-faults-" + class, Key: class,
				Detail: fmt.Sprintf("rebuild %d on the healed tree differs from a fresh build: %s; history: %s", r.Step, detail, strings.Join(hist, " || "))}
		}
		rc.Probe("healed_rebuild_equals_fresh")
	}
	rc.Note("hist:" + fmt.Sprintf("%x", fnv64(strings.Join(hist, "|")+strings.Join(notes, "|"))))
	return nil
}
