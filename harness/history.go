package harness

// The history engine shared by C09, C17, C18, C19 and C16: one long-lived build
// context, a seeded edit history on the simulated disk, a rebuild after every step,
// and for every rebuild a fresh build of the same disk snapshot in its own bubble.

import (
	"fmt"
	"sort"
	"time"

	"github.com/evanw/esbuild/pkg/api"
	"github.com/evanw/esbuild/pkg/verifsim"
)

type BuildRec struct {
	Step    int
	Edits   []string
	Opts    api.BuildOptions
	Res     api.BuildResult
	Canon   *Canon
	Snap    *verifsim.Disk // the tree the build saw (after the step's edits, before the build)
	Log     []verifsim.Op  // disk operations performed during the build
	After   map[string]string
	Before  map[string]string
	Dirty   []string // watch predicates of the previous build evaluated after this step's edits
	HasDirty bool
	Model   *Project
	Fresh   *BuildRec
	Aborted string
	Faulted bool
	CancelIssued bool
}

type HistCfg struct {
	Steps       int
	Watch       bool // use the watch-mode accessor and record dirty sets
	InPlace     bool
	Gran        time.Duration
	Canonical   bool // canonical schedule for the incremental side too
	OptChange   func(step int, o *OptModel) bool // C18: change one option => new context
	Plan        func(step int) *verifsim.FaultPlan
	EditsPerStep int
	UniqueKey   []byte
	Cancel      func(step int) int                       // >= 0: a second client cancels after that many of its own scheduling points
	ExtraEdit   func(step int, p *Project, d *verifsim.Disk) string // scenario-specific edit applied after the generic ones
	NoSnapshots bool
	SkipGeneric func(step int) bool // true: no generic edits in this step (ExtraEdit still runs)
	InitialSleep time.Duration      // let simulated time pass before the first build (files become "old")
}

var clockSteps = []time.Duration{0, time.Millisecond, 500 * time.Millisecond, 1500 * time.Millisecond, 3500 * time.Millisecond, 10 * time.Second}

func snapshotFiles(d *verifsim.Disk) map[string]string {
	_, c := d.Files()
	return c
}

// RunHistory executes the history in one bubble and returns one record per rebuild.
func RunHistory(rc *RunCtx, p *Project, o *OptModel, d *verifsim.Disk, cfg HistCfg) ([]*BuildRec, *verifsim.Sim) {
	g := rc.G
	var recs []*BuildRec
	so := SimOpts{Disk: d, Canonical: cfg.Canonical, UniqueKey: cfg.UniqueKey}
	s := rc.Sim(so, func() {
		opts := o.Build(p)
		ctx, cerr := api.Context(opts)
		if cerr != nil {
			recs = append(recs, &BuildRec{Step: -1, Opts: opts, Res: api.BuildResult{Errors: cerr.Errors}, Aborted: "context-error"})
			return
		}
		var dirtyFn func() []string
		if cfg.InitialSleep > 0 {
			verifsim.Sleep(cfg.InitialSleep)
		}
		for step := 0; step <= cfg.Steps; step++ {
			rec := &BuildRec{Step: step}
			if step > 0 {
				n := 1 + g.n(cfg.EditsPerStep)
				if cfg.SkipGeneric != nil && cfg.SkipGeneric(step) {
					n = 0
				}
				for e := 0; e < n; e++ {
					rec.Edits = append(rec.Edits, ApplyEdit(g, p, d, cfg.InPlace))
				}
				if cfg.ExtraEdit != nil {
					if e := cfg.ExtraEdit(step, p, d); e != "" {
						rec.Edits = append(rec.Edits, e)
					}
				}
				if adv := clockSteps[g.n(len(clockSteps))]; adv > 0 {
					verifsim.Sleep(adv)
					rec.Edits = append(rec.Edits, fmt.Sprintf("clock+%v", adv))
				}
				if cfg.OptChange != nil && cfg.OptChange(step, o) {
					ctx.Dispose()
					opts = o.Build(p)
					var cerr *api.ContextError
					ctx, cerr = api.Context(opts)
					if cerr != nil {
						rec.Res = api.BuildResult{Errors: cerr.Errors}
						rec.Aborted = "context-error"
						recs = append(recs, rec)
						return
					}
					dirtyFn = nil
					rec.Edits = append(rec.Edits, "option-change:new-context")
				}
			}
			if dirtyFn != nil {
				rec.Dirty = dirtyFn()
				sort.Strings(rec.Dirty)
				rec.HasDirty = true
			}
			rec.Opts = opts
			rec.Model = p.Clone()
			rec.Snap = d.Snapshot()
			rec.Before = snapshotFiles(d)
			d.TakeLog()
			if cfg.Plan != nil {
				if pl := cfg.Plan(step); pl != nil {
					d.SetPlan(pl)
					rec.Faulted = true
				}
			}
			cancelAfter := -1
			if cfg.Cancel != nil {
				cancelAfter = cfg.Cancel(step)
			}
			if cfg.Watch {
				var ok bool
				rec.Res, dirtyFn, ok = api.VerifWatchRebuild(ctx)
				if !ok {
					panic("VerifWatchRebuild: not an internal context")
				}
			} else if cancelAfter >= 0 {
				rec.CancelIssued = true
				theCtx := ctx
				cancelRebuild(theCtx, cancelAfter, func(r api.BuildResult) { rec.Res = r })
			} else {
				rec.Res = ctx.Rebuild()
			}
			d.SetPlan(nil)
			rec.Log = d.TakeLog()
			rec.After = snapshotFiles(d)
			rec.Canon = MakeCanon(rec.Res, p.Root)
			recs = append(recs, rec)
			rc.Stats.Builds++
			rc.Stats.SimBuilds++
		}
		ctx.Dispose()
	})
	return recs, s
}

// FreshBuild builds the snapshot with a brand-new context in its own bubble
// (canonical schedule, pristine caches).
func FreshBuild(rc *RunCtx, rec *BuildRec) *BuildRec {
	d := rec.Snap.Snapshot()
	f := &BuildRec{Step: rec.Step, Opts: rec.Opts, Model: rec.Model, Snap: rec.Snap}
	f.Before = snapshotFiles(d)
	s := rc.Sim(SimOpts{Disk: d, Canonical: true}, func() {
		f.Res = api.Build(rec.Opts)
	})
	rc.Stats.Builds++
	rc.Stats.SimBuilds++
	if s.Panic != nil {
		f.Aborted = panicText(s)
	}
	f.Log = d.TakeLog()
	f.After = snapshotFiles(d)
	f.Canon = MakeCanon(f.Res, rec.Model.Root)
	rec.Fresh = f
	return f
}

func histSample(recs []*BuildRec) []interface{} {
	var out []interface{}
	for _, r := range recs {
		out = append(out, map[string]interface{}{"step": r.Step, "edits": r.Edits, "errors": len(r.Res.Errors), "outputs": len(r.Res.OutputFiles), "dirty": r.Dirty})
	}
	return out
}

// cancelRebuild runs Rebuild while a second client cancels. when < 1000: the canceller
// spins for that many of its own scheduling points first; when >= 1000: the cancellation
// lands exactly before the (when-999)-th poll of the cancel flag by the build (every
// CancelFlag.DidCancel call is a scheduling point of kind "cancelpoll").
func cancelRebuild(ctx api.BuildContext, when int, store func(api.BuildResult)) {
	if when >= 1000 {
		verifsim.SetTrigger("cancelpoll", when-999)
		parallel(
			func() {
				store(ctx.Rebuild())
				verifsim.FireTrigger()
			},
			func() {
				verifsim.WaitTrigger()
				ctx.Cancel()
			},
		)
		return
	}
	parallel(
		func() { store(ctx.Rebuild()) },
		func() {
			for i := 0; i < when; i++ {
				verifsim.Yield("harness", "spin")
			}
			ctx.Cancel()
		},
	)
}

// drawCancel: half of the cancellations are placed at a poll point, half by spinning.
func drawCancel(g G) int {
	if g.n(2) == 0 {
		return 1000 + g.n(24)
	}
	return g.n(500)
}
