package harness

// C08 — builds are deterministic (DESIGN.md §4.1).

import (
	"fmt"
	"strings"

	"github.com/evanw/esbuild/pkg/api"
	"github.com/evanw/esbuild/pkg/verifsim"
)

func init() { scenarios["C08"] = scenarioC08 }

var altRoots = []string{"/p", "/a/much/longer/place/with-dashes/p", "/x/p"}

// perturb makes the project produce diagnostics: diagnostics and their order are part
// of the property.
func perturb(g G, p *Project, o *OptModel) string {
	switch g.n(12) {
	case 7:
		n := 1 + g.n(3)
		for i := 0; i < n; i++ {
			p.Mods[g.n(len(p.Mods))].Broken = true
		}
		return "syntax-errors"
	case 8:
		n := 1 + g.n(3)
		for i := 0; i < n; i++ {
			m := p.Mods[1+g.n(len(p.Mods)-1)]
			m.Deleted = true
		}
		return "missing-modules"
	case 9:
		return "missing-entry-points"
	case 10:
		// warnings from several files
		for _, m := range p.Mods {
			m.Feat |= FeatWarn
		}
		return "many-warnings"
	}
	return "clean"
}

func scenarioC08(rc *RunCtx) *Violation {
	g := rc.G
	p := GenProject(g, "/p")
	o := GenOptions(g, p)
	// With AllowOverwrite a build may replace its own inputs by its outputs, after which
	// "the same inputs" no longer holds for repeated and sibling builds.
	o.AllowOverwrite = false
	// Options naming built-in globals (Pure, dotted Define) are used by SIBLING builds only:
	// if they leak through process-global state, the build under test changes.
	o.Pure = 0
	o.MetaAbs = false // absolute metafile paths depend on the location by design
	if o.Inject {
		p.Extra["src/inject.js"] = "export let injected = 'INJ';\nconsole.log('inject');\n"
	}
	// profile: several entry points linked on their own goroutines (no splitting) that all
	// write to the shared mangle cache in entry-point order
	if g.n(5) == 0 {
		o.Bundle, o.Splitting, o.Mangle, o.MangleCache = true, false, true, true
		for i := 1; i < len(p.Mods) && len(p.Entries) < 4; i++ {
			if isJS(p.Mods[i].Kind) && !entryOf(p, i) {
				p.Entries = append(p.Entries, i)
			}
		}
		for _, m := range p.Mods {
			if g.n(3) != 0 {
				m.Feat |= FeatMangle
			} else {
				m.Feat &^= FeatMangle
			}
		}
		rc.Probe("profile_multi_entry_mangle_cache")
	}
	// profile: a style-sheet site - several CSS entry points that share sheets with @layer
	// lists, imported more than once and in different orders
	if g.n(4) == 0 {
		o.Bundle = true
		if g.n(3) != 0 {
			o.Splitting = false
		}
		p.AddCSSSite(g)
		rc.Probe("profile_css_site")
	}
	// profile: local-css files with the same name and the same class names in several
	// directories, imported by different entry points (their generated global names collide)
	if g.n(6) == 0 {
		p.LocalCSS = map[int]bool{}
		dirs := map[string]bool{}
		for _, m := range p.Mods {
			if len(p.LocalCSS) >= 4 || m.Deleted || !isJS(m.Kind) {
				continue
			}
			if d := dirOf(m.Path); !dirs[d] || g.n(3) == 0 {
				dirs[d] = true
				p.LocalCSS[m.ID] = true
				if !entryOf(p, m.ID) {
					p.Entries = append(p.Entries, m.ID)
				}
			}
		}
		o.Bundle = true
		if g.n(3) != 0 {
			o.Splitting = false
		}
		if g.n(3) != 0 {
			o.MinifyIDs = false
		}
		rc.Probe("profile_local_css_twins")
	}
	// profile: a package that ships a "module" and a "main" build is imported from one file and
	// require()d from another (the dual-package situation), sometimes with a "module" build that
	// draws a diagnostic of its own
	if g.n(6) == 0 && len(p.Pkgs) > 0 {
		pk := p.Pkgs[g.n(len(p.Pkgs))]
		pk.Entry = 1
		pk.PeerMissing = g.n(3) != 0
		var imp, req *Module
		for _, m := range p.Mods {
			if m.Deleted || !isJS(m.Kind) {
				continue
			}
			if m.Kind != "cjs" && imp == nil {
				imp = m
			} else if req == nil && m != imp {
				req = m
			}
		}
		if imp != nil && req != nil {
			has := func(m *Module) bool {
				for _, im := range m.Imports {
					if im.Target < 0 && im.Pkg == pk.Name {
						return true
					}
				}
				return false
			}
			if !has(imp) {
				imp.Imports = append(imp.Imports, Import{Target: -1, Pkg: pk.Name, Style: ImpNamed})
			}
			if !has(req) {
				req.Imports = append(req.Imports, Import{Target: -1, Pkg: pk.Name, Style: ImpRequire})
			}
			for _, m := range []*Module{imp, req} {
				if !entryOf(p, m.ID) && g.n(2) == 0 {
					p.Entries = append(p.Entries, m.ID)
				}
			}
			o.Bundle = true
			o.Platform = 0
			o.Packages = 0
			rc.Probe("profile_dual_package_both_ways")
		}
	}
	// profile: a package marked "sideEffects": false is imported for its side effects only
	// (import "pkg") from several files: each such import draws a warning of its own
	if g.n(4) == 0 && len(p.Pkgs) > 0 {
		pk := p.Pkgs[g.n(len(p.Pkgs))]
		pk.SideEffects = 1
		n := 0
		for _, m := range p.Mods {
			if m.Deleted || !isJS(m.Kind) || m.Kind == "cjs" || n >= 6 || g.n(3) == 0 {
				continue
			}
			dup := false
			for _, im := range m.Imports {
				if im.Target < 0 && im.Pkg == pk.Name {
					dup = true
				}
			}
			if !dup {
				m.Imports = append(m.Imports, Import{Target: -1, Pkg: pk.Name, Style: ImpSideEffect})
				n++
			}
		}
		o.Bundle = true
		o.Packages = 0
		rc.Probe("profile_bare_imports_of_side_effect_free_package")
	}
	kind := perturb(g, p, o)
	// a second, unrelated project for sibling builds in the same process
	p2 := GenProject(g, "/q")
	o2 := GenOptions(g, p2)
	o2.Inject = false
	o2.Write = false
	o2.Pure = 1 + g.n(3)

	mkOpts := func(pp *Project) api.BuildOptions {
		b := o.Build(pp)
		if kind == "missing-entry-points" {
			b.EntryPoints = append(b.EntryPoints, "src/nope1.js", "src/nope2.js", "gone/nope3.ts")
		}
		return b
	}

	// reference: canonical schedule, solo, root /p
	d0 := verifsim.NewDisk()
	p.WriteTo(d0, false)
	var r0 api.BuildResult
	s0 := rc.Sim(SimOpts{Disk: d0, Canonical: true}, func() { r0 = api.Build(mkOpts(p)) })
	rc.Stats.Builds++
	rc.Stats.SimBuilds++
	if s0.Panic != nil {
		rc.Probe("reference_aborted")
		return nil
	}
	ref := MakeCanon(r0, p.Root)
	rc.Note(fmt.Sprintf("proj:%x", fnv64(fmt.Sprint(describeProject(p, o)))))
	rc.Note("kind:" + kind)
	rc.Probe("kind_" + kind)
	if hasErrors(r0) {
		rc.Probe("reference_has_errors")
	}
	if len(r0.Warnings) > 1 {
		rc.Probe("reference_multiple_warnings")
	}
	if len(r0.OutputFiles) > 2 {
		rc.Probe("multi_output")
	}
	rc.Sample("project", describeProject(p, o))
	rc.Sample("perturbation", kind)
	rc.Sample("reference_outputs", ref.paths())

	variants := 5
	if rc.Tier == "thorough" {
		variants = 10
	}
	var modes []string
	for i := 0; i < variants; i++ {
		pi := p.Clone()
		pi.Root = altRoots[g.n(len(altRoots))]
		d := newDisk(g)
		pi.WriteTo(d, false)
		mode := g.n(5)
		opts := mkOpts(pi)
		var results []api.BuildResult
		so := SimOpts{Disk: d, NoLowest: true}
		modeName := ""
		switch mode {
		case 0, 1:
			modeName = "solo"
			so.UniqueKey = adversarialKeys[g.n(len(adversarialKeys))]
		case 2:
			modeName = "context-twice"
		case 3:
			modeName = "siblings-same"
		case 4:
			modeName = "siblings-other"
			p2.WriteTo(d, false)
		}
		modes = append(modes, modeName+"@"+pi.Root)
		s := rc.Sim(so, func() {
			switch mode {
			case 0, 1:
				results = append(results, api.Build(opts))
			case 2:
				ctx, err := api.Context(opts)
				if err != nil {
					results = append(results, api.BuildResult{Errors: err.Errors})
					return
				}
				results = append(results, ctx.Rebuild())
				results = append(results, ctx.Rebuild())
				ctx.Dispose()
			case 3:
				rs := make([]api.BuildResult, 3)
				parallel(
					func() { rs[0] = api.Build(opts) },
					func() { rs[1] = api.Build(opts) },
					func() { rs[2] = api.Build(opts) },
				)
				results = append(results, rs...)
			case 4:
				var r api.BuildResult
				parallel(
					func() { r = api.Build(opts) },
					func() { api.Build(o2.Build(p2)) },
					func() { api.Build(o2.Build(p2)) },
				)
				results = append(results, r)
			}
		})
		rc.Stats.Builds += len(results)
		rc.Stats.SimBuilds += len(results)
		rc.Probe("variant_" + modeName)
		if pi.Root != "/p" {
			rc.Probe("variant_other_root")
		}
		if s.Panic != nil {
			rc.Probe("variant_aborted")
			continue
		}
		for j, r := range results {
			c := MakeCanon(r, pi.Root)
			if class, detail := ref.Diff(c); class != "" {
				if debugOn {
					fmt.Printf("REF warnings:\n  %s\nVARIANT warnings:\n  %s\n", strings.Join(ref.Warns, "\n  "), strings.Join(c.Warns, "\n  "))
					fs := pi.Render()
					for _, k := range sortedKeys(fs) {
						if strings.HasSuffix(k, "m0.js") || strings.HasSuffix(k, "m3.js") {
							fmt.Printf("--- %s ---\n%s\n", k, fs[k])
						}
					}
					fmt.Printf("options: %s\n", o.String())
				}
				key := class
				if strings.HasSuffix(class, "-order") {
					key += ":" + orderKey(ref, c, class)
				}
				return &Violation{Class: "nondeterministic-" + class, Key: key,
					Detail: fmt.Sprintf("variant %d (%s, root %s, result %d of %d, perturbation %s) differs from the canonical-schedule reference: %s",
						i, modeName, pi.Root, j+1, len(results), kind, detail)}
			}
		}
	}
	rc.Sample("variants", modes)
	return nil
}

// orderKey says whether every message whose position changed carries no location.
func orderKey(a, b *Canon, class string) string {
	x, y := a.Errs, b.Errs
	if strings.HasPrefix(class, "warnings") {
		x, y = a.Warns, b.Warns
	}
	all := true
	for i := range x {
		if x[i] != y[i] {
			if strings.Contains(x[i], " @") || strings.Contains(y[i], " @") {
				all = false
			}
		}
	}
	if all {
		return "locationless-only"
	}
	return "located"
}
