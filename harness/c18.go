package harness

// C18 — hashed file names identify content; references between outputs resolve (DESIGN §4.5).

import (
	"encoding/base64"
	"fmt"
	"path"
	"regexp"
	"sort"
	"strings"

	"github.com/evanw/esbuild/pkg/verifsim"
)

// a hashed file name as esbuild writes it: 8 characters of base32 after '-', '.' or '/'
var reImportSpec = regexp.MustCompile(`(?:\bfrom|\bimport)\s*\(?\s*"[^"\n]*"`)
var reHashName = regexp.MustCompile(`[A-Za-z0-9_./-]*[-./][A-Z2-7]{8}[A-Za-z0-9_.-]*`)

func init() { scenarios["C18"] = scenarioC18 }

func scenarioC18(rc *RunCtx) *Violation {
	g := rc.G
	p := GenProject(g, "/p")
	o := GenOptions(g, p)
	o.Bundle = true
	o.Metafile = true
	if o.Format == 0 {
		o.Splitting = g.chance(75)
	}
	// hashed templates
	o.EntryNames = []int{2, 3, 4, 0, 5, 7}[g.n(6)]
	o.ChunkNames = g.n(len(chunkNameT))
	o.AssetNames = []int{0, 1, 4, 2, 3}[g.n(5)]
	o.BinLoader = []int{0, 3, 1}[g.n(3)]
	o.TxtLoader = []int{1, 2, 0}[g.n(3)]
	o.Outdir = []int{0, 1}[g.n(2)]
	if o.Inject {
		p.Extra["src/inject.js"] = "export let injected = 'INJ';\nconsole.log('inject');\n"
	}
	// make sure legal comments exist somewhere so that the legal-comment modes matter
	for _, m := range p.Mods {
		if g.chance(40) {
			m.Feat |= FeatLegal
		}
	}
	if g.n(8) == 0 {
		// a style-sheet site next to the modules: CSS entry points, @layer lists, sheets imported twice
		o.Bundle = true
		p.AddCSSSite(g)
		rc.Probe("profile_css_site")
	}
	key := make([]byte, 12)
	for i := range key {
		key[i] = byte(g.n(256))
	}
	prefix := base64.URLEncoding.EncodeToString(key)
	d := newDisk(g)
	cfg := HistCfg{Steps: 2 + g.n(6), InPlace: g.n(2) == 1, EditsPerStep: 2, UniqueKey: key}
	if rc.Tier == "thorough" {
		cfg.Steps += g.n(8)
	}
	var optChanges []string
	cfg.OptChange = func(step int, om *OptModel) bool {
		if g.n(3) != 0 {
			return false
		}
		switch g.n(6) {
		case 0:
			om.PublicPath = g.n(len(publicPathT))
			optChanges = append(optChanges, fmt.Sprintf("step %d: publicPath=%q", step, publicPathT[om.PublicPath]))
		case 1:
			om.Sourcemap = g.n(5)
			optChanges = append(optChanges, fmt.Sprintf("step %d: sourcemap=%d", step, om.Sourcemap))
		case 2:
			om.Legal = g.n(6)
			optChanges = append(optChanges, fmt.Sprintf("step %d: legal=%d", step, om.Legal))
		case 3:
			om.ChunkNames = g.n(len(chunkNameT))
			optChanges = append(optChanges, fmt.Sprintf("step %d: chunkNames=%q", step, chunkNameT[om.ChunkNames]))
		case 4:
			om.AssetNames = []int{0, 1, 4, 2, 3}[g.n(5)]
			optChanges = append(optChanges, fmt.Sprintf("step %d: assetNames=%q", step, assetNameT[om.AssetNames]))
		case 5:
			om.EntryNames = []int{2, 3, 4, 5, 7}[g.n(5)]
			optChanges = append(optChanges, fmt.Sprintf("step %d: entryNames=%q", step, entryNameT[om.EntryNames]))
		}
		return true
	}
	// "import() list" profile: one entry point imports several other entry points lazily
	// through a single array literal; an edit that swaps two members changes nothing in the
	// importer's output but which hashed chunk is referenced at which position
	if g.n(8) == 0 && o.Splitting {
		e := p.Mods[p.Entries[0]]
		if isJS(e.Kind) {
			n := 0
			for _, t := range p.Mods {
				if n >= 3 {
					break
				}
				if t.ID == e.ID || t.Deleted || !isJS(t.Kind) || importsTarget(e, t.ID) {
					continue
				}
				e.Imports = append(e.Imports, Import{Target: t.ID, Style: ImpDynamicList})
				if !entryOf(p, t.ID) {
					p.Entries = append(p.Entries, t.ID)
				}
				n++
			}
			if n >= 2 {
				rc.Probe("import_list_profile")
				cfg.ExtraEdit = func(step int, p *Project, d *verifsim.Disk) string {
					if g.n(5) >= 2 {
						return ""
					}
					var list []int
					for i, im := range e.Imports {
						if im.Style == ImpDynamicList {
							list = append(list, i)
						}
					}
					if len(list) < 2 {
						return ""
					}
					a := g.n(len(list) - 1)
					i, j := list[a], list[a+1]
					e.Imports[i], e.Imports[j] = e.Imports[j], e.Imports[i]
					p.WriteTo(d, cfg.InPlace)
					return fmt.Sprintf("reorder-imports %s import() list members %d,%d", e.Path, i, j)
				}
			}
		}
	}
	p.WriteTo(d, false)
	rc.Note(fmt.Sprintf("proj:%x", fnv64(fmt.Sprint(describeProject(p, o)))))
	recs, s := RunHistory(rc, p, o, d, cfg)
	rc.Sample("project", describeProject(p, o))
	rc.Sample("history", histSample(recs))
	rc.Sample("unique_key_prefix", prefix)
	if s.Panic != nil {
		rc.Probe("history_aborted")
		return nil
	}
	type seen struct {
		content string
		where   string
	}
	table := map[string]seen{}
	byBase := map[string]string{} // base name of every hashed output seen so far -> content
	prevOf := map[string]string{} // path -> content in the first build that emitted it (all outputs, for the companion rule)
	var hist []string
	check := func(r *BuildRec, label string) *Violation {
		if !buildOK(r.Res) {
			return nil
		}
		for _, f := range r.Res.OutputFiles {
			rel := stripRoot(f.Path, r.Model.Root)
			if _, ok := prevOf[rel]; !ok {
				prevOf[rel] = string(f.Contents)
			}
		}
		for _, f := range r.Res.OutputFiles {
			rel := stripRoot(f.Path, r.Model.Root)
			if !reHashTok.MatchString(path.Base(rel)) && !reHashTok.MatchString(rel) {
				continue
			}
			rc.Probe("hashed_output_seen")
			c := string(f.Contents)
			if prev, ok := table[rel]; ok {
				if prev.content != c {
					key := path.Ext(rel)
					curByBase := map[string]string{}
					for _, f2 := range r.Res.OutputFiles {
						curByBase[path.Base(f2.Path)] = string(f2.Contents)
					}
					if explainedByPermutation(prev.content, c, byBase, curByBase, 0) {
						// the two contents differ only in which emitted file is referenced where, or
						// only in the names of referenced files whose own contents differ only in that way
						key += ":only-references-permuted"
					} else if strings.HasSuffix(rel, ".map") {
						// the source map of a file that collides in that way collides with it
						js := strings.TrimSuffix(rel, ".map")
						for _, f2 := range r.Res.OutputFiles {
							if stripRoot(f2.Path, r.Model.Root) == js {
								if pj, ok := table[js]; ok && explainedByPermutation(pj.content, string(f2.Contents), byBase, curByBase, 0) {
									key += ":only-references-permuted"
								} else if pm, ok := prevOf[js]; ok && explainedByPermutation(pm, string(f2.Contents), byBase, curByBase, 0) {
									key += ":only-references-permuted"
								}
							}
						}
					}
					if debugOn {
						fmt.Printf("=== %s PREV (%s)\n%s\n=== CUR\n%s\n", rel, prev.where, prev.content, c)
						for _, n := range reHashName.FindAllString(c, -1) {
							fmt.Printf("=== referenced (cur) %s\n%s\n", n, curByBase[path.Base(n)])
						}
						for _, n := range reHashName.FindAllString(prev.content, -1) {
							fmt.Printf("=== referenced (prev) %s\n%s\n", n, byBase[path.Base(n)])
						}
					}
					return &Violation{Class: "same-path-different-bytes", Key: key,
						Detail: fmt.Sprintf("%s build of step %d emits %s with %d bytes, %s emitted the same path with %d different bytes (%s); option changes: %v; history: %s",
							label, r.Step, rel, len(c), prev.where, len(prev.content), firstDiff(prev.content, c), optChanges, strings.Join(hist, " || "))}
				}
				rc.Probe("hashed_path_seen_again_same_bytes")
			} else {
				table[rel] = seen{c, fmt.Sprintf("the %s build of step %d", label, r.Step)}
				byBase[path.Base(rel)] = c
			}
		}
		if v := CheckRefs(rc, r, o, label); v != nil {
			v.Detail += "; history: " + strings.Join(hist, " || ")
			return v
		}
		// the injected unique-key prefix must not survive anywhere
		if label == "incremental" {
			for _, f := range r.Res.OutputFiles {
				if strings.Contains(string(f.Contents), prefix) {
					return &Violation{Class: "placeholder-survives", Key: "output", Detail: fmt.Sprintf("output %s of step %d contains the unique-key prefix %s", f.Path, r.Step, prefix)}
				}
				if strings.Contains(f.Path, prefix) {
					return &Violation{Class: "placeholder-survives", Key: "path", Detail: fmt.Sprintf("output path %s of step %d contains the unique-key prefix %s", f.Path, r.Step, prefix)}
				}
			}
			if strings.Contains(r.Res.Metafile, prefix) {
				return &Violation{Class: "placeholder-survives", Key: "metafile", Detail: fmt.Sprintf("metafile of step %d contains the unique-key prefix %s", r.Step, prefix)}
			}
			for _, m := range append(append([]string{}, r.Canon.Errs...), r.Canon.Warns...) {
				if strings.Contains(m, prefix) {
					return &Violation{Class: "placeholder-survives", Key: "diagnostic", Detail: "diagnostic contains the unique-key prefix: " + m}
				}
			}
			rc.Probe("placeholder_search_done")
		}
		return nil
	}
	var prevOuts map[string]string
	for _, r := range recs {
		hist = append(hist, strings.Join(r.Edits, "; "))
		if r.Aborted != "" {
			rc.Probe("context_error")
			return nil
		}
		if v := check(r, "incremental"); v != nil {
			return v
		}
		f := FreshBuild(rc, r)
		if f.Aborted == "" {
			if v := check(f, "fresh"); v != nil {
				return v
			}
		}
		// probe: a name changed through an import chain
		if buildOK(r.Res) {
			cur := map[string]string{}
			for _, f := range r.Res.OutputFiles {
				cur[stripRoot(f.Path, r.Model.Root)] = string(f.Contents)
			}
			if prevOuts != nil {
				gone := 0
				for k := range prevOuts {
					if _, ok := cur[k]; !ok && reHashTok.MatchString(k) {
						gone++
					}
				}
				if gone >= 2 {
					rc.Probe("names_changed_through_import_chain")
				}
			}
			prevOuts = cur
		}
	}
	rc.Note("hist:" + fmt.Sprintf("%x", fnv64(strings.Join(hist, "|")+strings.Join(optChanges, "|"))))
	return nil
}

// permutedRefsOnly: a and b are equal once every import specifier (the string after
// `from`, `import` or `import(`) and every hashed file name is blanked, and they mention the
// same multiset of specifiers - i.e. the two contents differ only in which emitted file is
// referenced at which position.
func permutedRefsOnly(a, b string) bool {
	if a == b {
		return false
	}
	blank := func(s string) (string, []string) {
		var names []string
		s = reImportSpec.ReplaceAllStringFunc(s, func(m string) string {
			i := strings.IndexByte(m, '"')
			names = append(names, m[i:])
			return m[:i] + "#"
		})
		names = append(names, reHashName.FindAllString(s, -1)...)
		sort.Strings(names)
		return reHashName.ReplaceAllString(s, "#"), names
	}
	ba, na := blank(a)
	bb, nb := blank(b)
	return ba == bb && strings.Join(na, ",") == strings.Join(nb, ",") && len(na) >= 2
}

// explainedByPermutation: the difference between the old and the new content of one path is a
// consequence of the recorded finding C18-F2 (which file is referenced at which position
// is not part of the content hash): either the references are merely permuted, or the two
// contents are equal up to the NAMES of referenced hashed files and, for every name that
// changed, the old and the new file of that name differ - recursively - only in this way
// (their isolated hashes are then equal, so the importer's hash could not change). A
// referenced file whose real content changed is never explained.
func explainedByPermutation(a, b string, oldByBase, newByBase map[string]string, depth int) bool {
	if permutedRefsOnly(a, b) {
		return true
	}
	if a == b {
		// a referenced file that was renamed although not one byte of it changed (its final
		// hash also depends on the order in which the chunks happen to be numbered)
		return depth > 0
	}
	if depth > 4 {
		return false
	}
	na := reHashName.FindAllString(a, -1)
	nb := reHashName.FindAllString(b, -1)
	if len(na) != len(nb) || len(na) == 0 || reHashName.ReplaceAllString(a, "#") != reHashName.ReplaceAllString(b, "#") {
		return false
	}
	changed := 0
	for i := range na {
		if na[i] == nb[i] {
			continue
		}
		changed++
		oc, ok1 := oldByBase[path.Base(na[i])]
		nc, ok2 := newByBase[path.Base(nb[i])]
		if !ok1 || !ok2 || !explainedByPermutation(oc, nc, oldByBase, newByBase, depth+1) {
			return false
		}
	}
	return changed > 0
}
