package harness

// C20 — build contexts, plugins and the service protocol are safe under concurrency
// (DESIGN §4.7). Part (a): the context API; part (b), the stdio service, is in
// c20svc.go. Runs under the race detector.

import (
	"fmt"
	"os"
	"regexp"
	"sort"
	"strconv"
	"strings"
	"time"

	"github.com/anishathalye/porcupine"
	"github.com/evanw/esbuild/pkg/api"
	"github.com/evanw/esbuild/pkg/verifsim"
)

func init() { scenarios["C20"] = scenarioC20 }

const (
	opRebuild = iota
	opCancel
	opEdit
	opSleep
	opWatch
	opDispose
	opRebuildPollCancel // Rebuild by this client while a helper task cancels exactly before the k-th poll of the cancel flag
	numOps
)

var opNames = []string{"rebuild", "cancel", "edit", "sleep", "watch", "dispose", "rebuild"}

type c20Op struct {
	Kind int
	Dur  time.Duration
}

// delays (ms) between the watcher noticing a change and its rebuild
var watchDelays = []int{0, 0, 40, 500, 2500}

var sleepChoices = []time.Duration{time.Millisecond, 60 * time.Millisecond, 300 * time.Millisecond, 2 * time.Second, 10 * time.Second}

var reMarker = regexp.MustCompile(`M([0-9]+)@([0-9]+)`)

// resultDigest: a digest of a build result that ignores messages added by the
// harness's own end callbacks (those are appended after the callback has seen it).
func resultDigest(r *api.BuildResult) string {
	var sb strings.Builder
	for _, f := range r.OutputFiles {
		fmt.Fprintf(&sb, "%s|%s|%d;", f.Path, f.Hash, len(f.Contents))
	}
	sb.WriteString("#" + r.Metafile + "#")
	for _, m := range r.Errors {
		if !strings.HasPrefix(m.PluginName, "verif-onend") {
			sb.WriteString("E:" + m.PluginName + ":" + m.Text + ";")
		}
	}
	for _, m := range r.Warnings {
		if !strings.HasPrefix(m.PluginName, "verif-onend") {
			sb.WriteString("W:" + m.PluginName + ":" + m.Text + ";")
		}
	}
	return fmt.Sprintf("%016x", fnv64(sb.String()))
}

// observedVersions: module id -> set of marker versions that occur in the outputs.
func observedVersions(r *api.BuildResult) string {
	seen := map[int]map[int]bool{}
	for _, f := range r.OutputFiles {
		if strings.HasSuffix(f.Path, ".map") {
			continue
		}
		for _, m := range reMarker.FindAllStringSubmatch(string(f.Contents), -1) {
			id, _ := strconv.Atoi(m[1])
			v, _ := strconv.Atoi(m[2])
			if seen[id] == nil {
				seen[id] = map[int]bool{}
			}
			seen[id][v] = true
		}
	}
	ids := make([]int, 0, len(seen))
	for id := range seen {
		ids = append(ids, id)
	}
	sort.Ints(ids)
	var parts []string
	for _, id := range ids {
		var vs []int
		for v := range seen[id] {
			vs = append(vs, v)
		}
		sort.Ints(vs)
		var ss []string
		for _, v := range vs {
			ss = append(ss, strconv.Itoa(v))
		}
		parts = append(parts, fmt.Sprintf("%d=%s", id, strings.Join(ss, "/")))
	}
	return strings.Join(parts, ",")
}

func behave(g G, what string, canFail bool) (fail bool) {
	switch g.n(14) {
	case 9:
		k := 1 + g.n(6)
		for i := 0; i < k; i++ {
			verifsim.Yield("plugin", what)
		}
	case 10, 11:
		verifsim.Sleep(sleepChoices[g.n(len(sleepChoices))])
	case 12:
		return canFail
	}
	return false
}

// c20Plugins: two harness plugins whose callbacks log their entry and exit and behave as
// the tape says (return, yield, sleep, fail, re-enter Resolve). The first end callback also
// logs a digest of every output file (used by the Serve checks).
func c20Plugins(g G, root string, d *verifsim.Disk, write bool) []api.Plugin {
	mkPlugin := func(idx int, full bool) api.Plugin {
		name := fmt.Sprintf("verif-p%d", idx)
		return api.Plugin{Name: name, Setup: func(b api.PluginBuild) {
			b.OnStart(func() (api.OnStartResult, error) {
				verifsim.LogEvent("cb<", idx, 0, "start", "")
				fail := behave(g, "start", true)
				verifsim.LogEvent("cb>", idx, 0, "start", "")
				if fail {
					return api.OnStartResult{Errors: []api.Message{{Text: "start failed on purpose"}}}, nil
				}
				return api.OnStartResult{}, nil
			})
			if full {
				b.OnResolve(api.OnResolveOptions{Filter: `.*`}, func(a api.OnResolveArgs) (api.OnResolveResult, error) {
					if a.PluginData == "reentrant" {
						return api.OnResolveResult{}, nil
					}
					verifsim.LogEvent("cb<", idx, 0, "resolve", a.Path)
					if g.n(12) == 0 && a.Kind != api.ResolveEntryPoint {
						// re-enter the API from within a callback
						b.Resolve(a.Path, api.ResolveOptions{ResolveDir: a.ResolveDir, Kind: a.Kind, Importer: a.Importer, PluginData: "reentrant"})
					}
					behave(g, "resolve", false)
					verifsim.LogEvent("cb>", idx, 0, "resolve", a.Path)
					return api.OnResolveResult{}, nil
				})
				b.OnLoad(api.OnLoadOptions{Filter: `.*`}, func(a api.OnLoadArgs) (api.OnLoadResult, error) {
					// module identity = namespace, path, suffix and import attributes
					id := a.Namespace + ":" + a.Path + a.Suffix
					for _, k := range sortedKeys(a.With) {
						id += " with " + k + "=" + a.With[k]
					}
					verifsim.LogEvent("cb<", idx, 0, "load", id)
					behave(g, "load", false)
					verifsim.LogEvent("cb>", idx, 0, "load", id)
					return api.OnLoadResult{}, nil
				})
			}
			b.OnEnd(func(r *api.BuildResult) (api.OnEndResult, error) {
				verifsim.LogEvent("cb<", idx, 0, "end", resultDigest(r)+" "+observedVersions(r))
				if idx == 0 {
					verifsim.LogEvent("files", idx, len(r.Errors), "", outputFilesDigest(r, root))
					for _, f := range r.OutputFiles {
						if len(f.Contents) <= 16<<10 {
							verifsim.LogEvent("content", idx, 0, stripRoot(f.Path, root), string(f.Contents))
						}
					}
					if write && len(r.Errors) == 0 && d != nil {
						// end callbacks run after the outputs are written: every reported output
						// of a build without errors is on the disk now, with the reported bytes
						missing := 0
						first := ""
						for _, f := range r.OutputFiles {
							if got, ok := d.Get(f.Path); !ok || string(got) != string(f.Contents) {
								missing++
								if first == "" {
									first = f.Path
								}
							}
						}
						verifsim.LogEvent("enddisk", missing, len(r.OutputFiles), first, "")
					}
				}
				fail := behave(g, "end", true)
				f := 0
				if fail {
					f = 1
				}
				verifsim.LogEvent("cb>", idx, f, "end", "")
				if fail {
					return api.OnEndResult{Errors: []api.Message{{PluginName: "verif-onend", Text: "end failed on purpose"}}}, nil
				}
				return api.OnEndResult{}, nil
			})
			b.OnDispose(func() {
				verifsim.LogEvent("cb<", idx, 0, "ondispose", "")
				verifsim.LogEvent("cb>", idx, 0, "ondispose", "")
			})
		}}
	}
	return []api.Plugin{mkPlugin(0, true), mkPlugin(1, false)}
}

// outputFilesDigest: "rel=digest;..." of a result's output files, sorted by path.
func outputFilesDigest(r *api.BuildResult, root string) string {
	var parts []string
	for _, f := range r.OutputFiles {
		parts = append(parts, fmt.Sprintf("%s=%016x", stripRoot(f.Path, root), fnv64(string(f.Contents))))
	}
	sort.Strings(parts)
	return strings.Join(parts, ";")
}

type c20Build struct {
	first, last     int // event positions (N) of the first callback entry and the final end-callback exit
	firstSeq        int
	startExits      []int
	digest          string
	versions        string
	endEntries      []int
	endPlugins      []int
	firstEndSeq     int
	loads           map[string]int
	firstResolveLoad int
	complete        bool
	endTask         int // task that ran the end callbacks = the goroutine that owns the build
	endExt          int // event position until which the context may still consider the build active
	lastAt          int64 // simulated time of the final end-callback exit
	firstAt         int64
	errors          int  // number of errors the first end callback saw
	endFailed       bool // an end callback returned an error
}

type c20Read struct{ File, Version, Call, Return int }

// c20Extra lets the Serve scenario extend the history check.
type c20Extra struct {
	// TimeEndExt: a build whose owning goroutine logs nothing afterwards (the HTTP handler
	// or the delayed first build of Serve) counts as in progress only until simulated time
	// has moved 100 ms past its last end callback (time only advances when no task is
	// runnable, so by then the owner has cleared the active build).
	TimeEndExt bool
	Reads      []c20Read // further reads of the per-file registers (files served over HTTP)
	Check      func(builds []*c20Build, viol func(class, f string, a ...interface{}) *Violation) *Violation
}

func scenarioC20(rc *RunCtx) *Violation {
	sub := rc.G.n(10)
	switch os.Getenv("VERIF_C20_SUB") { // exploration aid: force one part
	case "service":
		sub = 0
	case "serve":
		sub = 2
	case "builds":
		sub = 8
	case "context":
		sub = 5
	}
	switch sub {
	case 0, 1:
		return scenarioC20Service(rc)
	case 2, 3, 4:
		return scenarioC20Serve(rc)
	case 8, 9:
		return scenarioC20Builds(rc)
	}
	g := rc.G
	p := GenProject(g, "/p")
	// small projects: histories must stay short
	p.Trim(8)
	for _, m := range p.Mods {
		m.Feat &^= FeatWarn | FeatSourceMapComment
		m.Broken = false
	}
	o := GenOptions(g, p)
	o.Bundle = true
	o.Metafile = true
	o.Write = g.chance(50)
	o.Outdir = 0
	o.Inject = g.chance(30)
	if o.Inject {
		p.Extra["src/inject.js"] = "export let injected = 'INJ';\nconsole.log('inject');\n"
	}
	o.Sourcemap = 0
	o.MinifyWS, o.MinifyIDs, o.MinifySyn = false, false, false
	d := newDisk(g)
	d.Gran = 1
	p.WriteTo(d, false)
	dumpProject(p, o)

	watchDelay := watchDelays[g.n(len(watchDelays))]
	nClients := 2 + g.n(3)
	progs := make([][]c20Op, nClients)
	watchUsed := false
	pollCancelUsed := false
	var progDesc []string
	for c := range progs {
		n := 1 + g.n(5)
		var names []string
		for i := 0; i < n; i++ {
			op := c20Op{Kind: []int{opRebuild, opRebuild, opCancel, opEdit, opSleep, opRebuild, opEdit, opWatch, opDispose, opCancel}[g.n(10)]}
			if op.Kind == opWatch {
				if watchUsed {
					op.Kind = opRebuild
				}
				watchUsed = true
			}
			if op.Kind == opDispose && g.n(2) == 0 {
				op.Kind = opRebuild // keep Dispose rare: it ends all activity
			}
			if op.Kind == opSleep {
				op.Dur = sleepChoices[g.n(len(sleepChoices))]
			}
			if op.Kind == opRebuild && c == 0 && !pollCancelUsed && g.n(3) != 0 {
				// (one per run: the simulator has a single trigger)
				pollCancelUsed = true
				op.Kind = opRebuildPollCancel
				op.Dur = time.Duration(1 + g.n(8) + g.n(20)) // the poll before which the cancellation lands (small projects poll 10-25 times)
			}
			progs[c] = append(progs[c], op)
			if op.Kind == opRebuildPollCancel {
				names = append(names, fmt.Sprintf("rebuild+cancel@poll%d", int(op.Dur)))
			} else {
				names = append(names, opNames[op.Kind])
			}
		}
		progDesc = append(progDesc, fmt.Sprintf("client%d: %s", c, strings.Join(names, ",")))
	}
	rc.Note(fmt.Sprintf("proj:%x progs:%s", fnv64(fmt.Sprint(describeProject(p, o))), strings.Join(progDesc, ";")))
	rc.Sample("project", describeProject(p, o))
	rc.Sample("client_programs", progDesc)

	opts := o.Build(p)
	opts.Plugins = c20Plugins(g, p.Root, d, opts.Write)

	var zero api.BuildResult
	zeroDigest := resultDigest(&zero)
	var ctxErr string
	s := rc.Sim(SimOpts{Disk: d, MaxSteps: 6000000}, func() {
		ctx, cerr := api.Context(opts)
		if cerr != nil {
			ctxErr = cerr.Error()
			return
		}
		var fs []func()
		for c := range progs {
			c := c
			fs = append(fs, func() {
				for i, op := range progs[c] {
					verifsim.LogEvent("call<", c, i, opNames[op.Kind], "")
					res := ""
					switch op.Kind {
					case opRebuild, opRebuildPollCancel:
						var r api.BuildResult
						if op.Kind == opRebuildPollCancel {
							cancelRebuild(ctx, 999+int(op.Dur), func(x api.BuildResult) { r = x })
							rc.Probe("rebuild_cancelled_before_chosen_poll")
							if debugOn {
								rc.Probe(fmt.Sprintf("polls_seen_%03d_wanted_%03d_write_%v", verifsim.TriggerCount(), int(op.Dur), opts.Write))
							}
						} else {
							r = ctx.Rebuild()
						}
						res = resultDigest(&r) + " " + observedVersions(&r)
						if len(r.Errors) == 0 && r.Metafile != "" {
							// internal consistency: metafile outputs = OutputFiles
							if mf, err := ParseMetafile(r.Metafile); err != nil || len(mf.Outputs) != len(r.OutputFiles) {
								res += " INCONSISTENT"
							}
						}
					case opCancel:
						ctx.Cancel()
					case opDispose:
						ctx.Dispose()
					case opWatch:
						if err := ctx.Watch(api.WatchOptions{Delay: watchDelay}); err != nil {
							res = "err:" + err.Error()
						}
					case opSleep:
						verifsim.Sleep(op.Dur)
					case opEdit:
						idx := 1 + c
						if idx >= len(p.Mods) || p.Mods[idx].Deleted || !isJS(p.Mods[idx].Kind) {
							idx = 0
						}
						if idx == 0 && c != 0 {
							break // module 0 belongs to client 0
						}
						m := p.Mods[idx]
						m.Version++
						verifsim.LogEvent("edit<", m.ID, m.Version, "", "")
						d.PutFile(p.Root+"/"+m.Path, []byte(p.RenderModule(m)), false)
						verifsim.LogEvent("edit>", m.ID, m.Version, "", "")
					}
					verifsim.LogEvent("call>", c, i, opNames[op.Kind], res)
				}
			})
		}
		parallel(fs...)
		verifsim.LogEvent("call<", 99, 0, "dispose", "")
		ctx.Dispose()
		verifsim.LogEvent("call>", 99, 0, "dispose", "")
	})
	rc.Stats.Builds++
	if ctxErr != "" {
		rc.Probe("context_error")
		return nil
	}
	if v := abnormal(s, "clients "+strings.Join(progDesc, "; ")); v != nil {
		return v
	}
	ev := s.Events()
	return checkC20History(rc, ev, d.TakeLog(), zeroDigest, progDesc, opts.Write, nil)
}

func checkC20History(rc *RunCtx, ev []verifsim.Event, disk []verifsim.Op, zeroDigest string, progDesc []string, write bool, extra *c20Extra) *Violation {
	viol := func(class, f string, a ...interface{}) *Violation {
		var sb strings.Builder
		for i, e := range ev {
			if i > 160 {
				sb.WriteString(" ...")
				break
			}
			fmt.Fprintf(&sb, " [%d t%d %s %s a=%d b=%d %s]", e.N, e.Task, e.Kind, e.S, e.A, e.B, trunc(e.T, 40))
		}
		return &Violation{Class: class, Key: class, Detail: fmt.Sprintf(f, a...) + "; clients: " + strings.Join(progDesc, "; ") + "; events:" + sb.String()}
	}
	// ---- segment callbacks into builds ----
	var builds []*c20Build
	var cur *c20Build
	disposeRet := -1 // N of the return of the first Dispose call
	type call struct {
		client, idx    int
		name           string
		inv, ret       int
		invSeq, retSeq int
		res            string
	}
	var calls []*call
	open := map[[2]int]*call{}
	onDispose := map[int]int{}
	for _, e := range ev {
		switch e.Kind {
		case "call<":
			c := &call{client: e.A, idx: e.B, name: e.S, inv: e.N, ret: -1, invSeq: e.Seq}
			open[[2]int{e.A, e.B}] = c
			calls = append(calls, c)
		case "call>":
			if c := open[[2]int{e.A, e.B}]; c != nil {
				c.ret, c.retSeq, c.res = e.N, e.Seq, e.T
				if c.name == "dispose" && (disposeRet < 0 || e.N < disposeRet) {
					disposeRet = e.N
				}
			}
		case "cb<":
			if e.S == "ondispose" {
				onDispose[e.A]++
				continue
			}
			if cur == nil {
				cur = &c20Build{first: e.N, firstSeq: e.Seq, firstAt: e.At, loads: map[string]int{}, firstResolveLoad: -1}
				builds = append(builds, cur)
			}
			switch e.S {
			case "resolve", "load":
				if cur.firstResolveLoad < 0 {
					cur.firstResolveLoad = e.N
				}
				if e.S == "load" {
					cur.loads[e.T]++
				}
			case "end":
				if len(cur.endEntries) == 0 {
					cur.firstEndSeq = e.Seq
				}
				cur.endEntries = append(cur.endEntries, e.N)
				cur.endPlugins = append(cur.endPlugins, e.A)
				parts := strings.SplitN(e.T, " ", 2)
				if cur.digest != "" && cur.digest != parts[0] {
					return viol("end-callbacks-see-different-results", "the end callbacks of one build saw different results (%s vs %s)", cur.digest, parts[0])
				}
				cur.digest = parts[0]
				if len(parts) > 1 {
					cur.versions = parts[1]
				}
			}
		case "cb>":
			if cur == nil {
				continue
			}
			switch e.S {
			case "start":
				cur.startExits = append(cur.startExits, e.N)
			case "end":
				// the build's callbacks are over when the last registered end callback
				// returns, or when one fails
				if e.B == 1 {
					cur.endFailed = true
				}
				if e.A == 1 || e.B == 1 {
					cur.last = e.N
					cur.lastAt = e.At
					cur.endTask = e.Task
					cur.complete = true
					cur = nil
				}
			}
		}
	}
	// After its last end callback a build is still "in progress" for the context until
	// the owning goroutine has cleared the active build: up to the return of the owner's
	// Rebuild call, or (watcher-owned builds) the owner's next logged action.
	for _, b := range builds {
		b.endExt = len(ev)
		for _, e := range ev[b.last+1:] {
			if e.Task == b.endTask || (extra != nil && extra.TimeEndExt && e.At > b.lastAt+int64(100*time.Millisecond)) {
				b.endExt = e.N
				break
			}
		}
	}
	rc.Stats.SimBuilds += len(builds)
	for _, c := range calls {
		if c.ret < 0 {
			return viol("call-never-returned", "%s issued by client %d never returned although the run ended without deadlock", c.name, c.client)
		}
	}
	for i, b := range builds {
		if !b.complete {
			return viol("build-without-end-callbacks", "build %d ran callbacks but its end callbacks never completed", i)
		}
		// 5. callback order within a build
		for _, x := range b.startExits {
			if b.firstResolveLoad >= 0 && x > b.firstResolveLoad {
				return viol("resolve-or-load-before-start-finished", "build %d: a resolve/load callback was entered (event %d) before a start callback had returned (event %d)", i, b.firstResolveLoad, x)
			}
		}
		for k, n := range b.loads {
			if n > 1 {
				return viol("module-loaded-twice", "build %d: load callback invoked %d times for %s", i, n, k)
			}
		}
		if len(b.endPlugins) > 2 || (len(b.endPlugins) >= 1 && b.endPlugins[0] != 0) || (len(b.endPlugins) == 2 && b.endPlugins[1] != 1) {
			return viol("end-callbacks-order", "build %d: end callbacks ran as plugins %v (expected [0] or [0 1], each once)", i, b.endPlugins)
		}
		if len(b.endPlugins) > 0 {
			rc.Probe("build_with_end_callbacks")
		}
	}
	for _, e := range ev {
		if e.Kind == "enddisk" {
			rc.Probe("end_callback_saw_outputs_on_disk_checked")
			if e.A > 0 {
				return viol("end-callback-before-outputs-written", "the first end callback of a build without errors ran while %d of its %d reported outputs were not on the disk with the reported bytes (first: %s)", e.A, e.B, e.S)
			}
		}
	}
	// end callbacks run after the build's outputs are written
	for i, b := range builds {
		if len(b.endEntries) == 0 {
			continue
		}
		lastSeq := ev[b.last].Seq
		for _, op := range disk {
			if op.Kind == "writefile" && op.Task >= 0 && op.Step > b.firstEndSeq && op.Step <= lastSeq {
				return viol("write-after-end-callback", "build %d: %s was written at step %d, after the build's first end callback had been entered at step %d", i, op.Path, op.Step, b.firstEndSeq)
			}
		}
	}
	// ---- per call checks ----
	watchInv := -1
	for _, c := range calls {
		if c.name == "watch" && !strings.HasPrefix(c.res, "err:") && (watchInv < 0 || c.inv < watchInv) {
			watchInv = c.inv
		}
	}
	firstDisposeInv := -1
	for _, c := range calls {
		if c.name == "dispose" && (firstDisposeInv < 0 || c.inv < firstDisposeInv) {
			firstDisposeInv = c.inv
		}
	}
	for _, c := range calls {
		switch c.name {
		case "rebuild":
			parts := strings.SplitN(c.res, " ", 2)
			dg := parts[0]
			if strings.Contains(c.res, "INCONSISTENT") {
				return viol("inconsistent-result", "Rebuild returned a result without errors whose metafile does not list its output files")
			}
			if len(parts) > 1 && strings.Contains(parts[1], "/") {
				return viol("mixed-result", "Rebuild returned outputs that contain two versions of one file's marker: %s", parts[1])
			}
			if dg == zeroDigest {
				if firstDisposeInv >= 0 && firstDisposeInv < c.ret {
					rc.Probe("rebuild_on_disposed_context")
					continue
				}
				return viol("empty-result-without-dispose", "Rebuild returned the empty result although Dispose had not been called")
			}
			if disposeRet >= 0 && c.inv > disposeRet {
				return viol("work-after-dispose", "Rebuild invoked after Dispose had returned produced a non-empty result")
			}
			var match *c20Build
			matches := 0
			for _, b := range builds {
				if b.digest == dg && b.first < c.ret && b.endExt > c.inv {
					match = b
					matches++
				}
			}
			if match == nil {
				return viol("result-of-no-overlapping-build", "Rebuild (client %d op %d, events %d..%d) returned a result (digest %s) that no build overlapping the call delivered to its end callbacks", c.client, c.idx, c.inv, c.ret, dg)
			}
			rc.Probe("rebuild_matched_build")
			if match.first < c.inv {
				rc.Probe("joined_active_build")
			}
			// 3a. when nothing was in progress, the build is started by the call
			idle := true
			for _, b := range builds {
				if b.first < c.inv && b.endExt > c.inv {
					idle = false
				}
			}
			if idle && (watchInv < 0 || watchInv > c.ret) && matches == 1 && match.first < c.inv {
				return viol("stale-build-returned", "no build was in progress when Rebuild was invoked (event %d) but it returned the result of a build that had started earlier (event %d)", c.inv, match.first)
			}
		case "cancel", "dispose":
			for i, b := range builds {
				if b.first < c.inv && b.last > c.ret {
					return viol(c.name+"-returned-before-build-ended", "%s (events %d..%d) returned while build %d (events %d..%d) was still running its callbacks", c.name, c.inv, c.ret, i, b.first, b.last)
				}
			}
			rc.Probe(c.name + "_checked")
		}
	}
	// no callbacks after Dispose has returned
	if disposeRet >= 0 {
		for _, e := range ev {
			if e.N > disposeRet && e.Kind == "cb<" && e.S != "ondispose" {
				return viol("callback-after-dispose", "%s callback entered (event %d) after Dispose had returned (event %d)", e.S, e.N, disposeRet)
			}
		}
		for idx, n := range onDispose {
			if n != 1 {
				return viol("ondispose-count", "the dispose callback of plugin %d ran %d times", idx, n)
			}
		}
		if len(onDispose) != 2 {
			return viol("ondispose-count", "dispose callbacks ran for %d of 2 plugins after Dispose", len(onDispose))
		}
	}
	// ---- 3b. per-file register linearizability ----
	type regIn struct {
		write bool
		key   int
		val   int
	}
	var ops []porcupine.Operation
	editOpen := map[int]int{}
	for _, e := range ev {
		switch e.Kind {
		case "edit<":
			editOpen[e.A] = e.N
		case "edit>":
			ops = append(ops, porcupine.Operation{ClientId: 1000 + e.A, Input: regIn{true, e.A, e.B}, Call: int64(editOpen[e.A]), Output: e.B, Return: int64(e.N)})
		}
	}
	reads := 0
	for bi, b := range builds {
		if b.versions == "" {
			continue
		}
		for _, kv := range strings.Split(b.versions, ",") {
			p2 := strings.SplitN(kv, "=", 2)
			if len(p2) != 2 || strings.Contains(p2[1], "/") {
				continue
			}
			id, _ := strconv.Atoi(p2[0])
			v, _ := strconv.Atoi(p2[1])
			ops = append(ops, porcupine.Operation{ClientId: bi, Input: regIn{false, id, v}, Call: int64(b.first), Output: v, Return: int64(b.last)})
			reads++
		}
	}
	if extra != nil {
		for i, r := range extra.Reads {
			ops = append(ops, porcupine.Operation{ClientId: 5000 + i, Input: regIn{false, r.File, r.Version}, Call: int64(r.Call), Output: r.Version, Return: int64(r.Return)})
			reads++
		}
	}
	if reads > 0 && len(ops) <= 400 {
		model := porcupine.Model{
			Partition: func(history []porcupine.Operation) [][]porcupine.Operation {
				m := map[int][]porcupine.Operation{}
				var keys []int
				for _, o := range history {
					k := o.Input.(regIn).key
					if _, ok := m[k]; !ok {
						keys = append(keys, k)
					}
					m[k] = append(m[k], o)
				}
				sort.Ints(keys)
				var out [][]porcupine.Operation
				for _, k := range keys {
					out = append(out, m[k])
				}
				return out
			},
			Init: func() interface{} { return 1 },
			Step: func(state, input, output interface{}) (bool, interface{}) {
				in := input.(regIn)
				if in.write {
					return true, in.val
				}
				return output.(int) == state.(int), state
			},
			Equal: func(a, b interface{}) bool { return a.(int) == b.(int) },
		}
		res := porcupine.CheckOperationsTimeout(model, ops, 20*time.Second)
		switch res {
		case porcupine.Illegal:
			var desc []string
			for _, o := range ops {
				in := o.Input.(regIn)
				k := "read"
				if in.write {
					k = "write"
				}
				desc = append(desc, fmt.Sprintf("%s(file %d)=%v@[%d,%d]", k, in.key, o.Output, o.Call, o.Return))
			}
			return viol("stale-file-version", "the file versions observed by builds are not linearizable with the edits (some build shows a version older than an edit that had returned before it started): %s", strings.Join(desc, " "))
		case porcupine.Ok:
			rc.Probe("register_history_linearizable")
		default:
			rc.Probe("register_check_inconclusive")
		}
	}
	if extra != nil && extra.Check != nil {
		if v := extra.Check(builds, viol); v != nil {
			return v
		}
	}
	rc.Note(fmt.Sprintf("builds:%d calls:%d", len(builds), len(calls)))
	rc.Sample("builds", len(builds))
	return nil
}
