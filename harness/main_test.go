package harness

import (
	"os"
	"testing"
)

var scenarios = map[string]Scenario{}

// TestWorker is the entry point used by /verif/check (one OS process per worker).
func TestWorker(t *testing.T) {
	if os.Getenv("VERIF_PROP") == "" {
		t.Skip("VERIF_PROP not set")
	}
	RunWorker(t)
}

// TestReplay replays a replay file: fails when the recorded violation shows again.
func TestReplay(t *testing.T) {
	path := os.Getenv("VERIF_REPLAY")
	if path == "" {
		t.Skip("VERIF_REPLAY not set")
	}
	RunReplay(t, path)
}
