package harness

import (
	"fmt"
	"sort"
	"strings"

	"github.com/evanw/esbuild/pkg/api"
)

// OptModel is the option set of a build in a form that can be generated, mutated,
// printed and turned into api.BuildOptions for any project root.
type OptModel struct {
	Bundle      bool
	Splitting   bool
	Format      int // 0 esm 1 cjs 2 iife
	Platform    int // 0 browser 1 node 2 neutral
	MinifyWS    bool
	MinifyIDs   bool
	MinifySyn   bool
	Sourcemap   int // 0 none 1 linked 2 inline 3 external 4 both
	SourcesContent int
	Metafile    bool
	Mangle      bool
	MangleCache bool
	Legal       int // 0 default 1 none 2 inline 3 eof 4 linked 5 external
	EntryNames  int
	ChunkNames  int
	AssetNames  int
	PublicPath  int
	Outdir      int // 0 out 1 dist/deep 2 src (inside sources) 3 ../outside 4 . (root)
	Outbase     int
	OutExt      int // 0 none 1 .mjs 2 same as input (.js for js)
	BinLoader   int // loader for .png: 0 file 1 dataurl 2 binary 3 copy 4 base64
	TxtLoader   int // loader for .txt: 0 text 1 file 2 copy
	Write       bool
	AllowOverwrite bool
	Target      int
	KeepNames   bool
	TreeShaking int
	Define      bool
	Banner      bool
	Charset     int
	LineLimit   int
	Inject      bool
	AbsPaths    bool
	JSX         int
	Packages    int
	Pure        int // 0 none; otherwise marks built-in globals as pure / defines a dotted global
	MetaAbs     bool // metafile paths in absolute style
}

var (
	entryNameT = []string{"", "[dir]/[name]", "[name]-[hash]", "e/[name].[hash]", "[dir]/[name]-[hash]", "[ext]/[name]-[hash]", "[name]", ".e/[name]-[hash]"}
	chunkNameT = []string{"", "chunks/[name]-[hash]", "[hash]", "c/[hash]-[name]", ".c/[name]-[hash]"}
	assetNameT = []string{"", "assets/[name]-[hash]", "[name]", "[dir]/[name]", "a/[hash]"}
	publicPathT = []string{"", "https://cdn.example.com/base", "/static/", "../up"}
	outdirT    = []string{"out", "dist/deep", "src", "../outside", ".", "src/outlink"} // (src/outlink: a symbolic link to "." made by the C17 scenario)
)

func GenOptions(g G, p *Project) *OptModel {
	o := &OptModel{Metafile: true}
	o.Bundle = !g.chance(12)
	o.Format = []int{0, 1, 0, 2, 0}[g.n(5)]
	if o.Bundle && o.Format == 0 {
		o.Splitting = g.chance(75)
	}
	o.Platform = g.n(3)
	o.MinifyWS = g.chance(30)
	o.MinifyIDs = g.chance(35)
	o.MinifySyn = g.chance(30)
	o.Sourcemap = g.n(5)
	o.SourcesContent = g.n(3)
	o.Metafile = !g.chance(10)
	o.Mangle = g.chance(30)
	o.MangleCache = o.Mangle && g.chance(60)
	o.Legal = g.n(6)
	o.EntryNames = g.n(len(entryNameT))
	o.ChunkNames = g.n(len(chunkNameT))
	o.AssetNames = g.n(len(assetNameT))
	o.PublicPath = g.n(len(publicPathT))
	o.Outdir = g.n(len(outdirT))
	o.Outbase = g.n(4)
	o.OutExt = g.n(3)
	o.BinLoader = g.n(5)
	o.TxtLoader = g.n(3)
	o.Write = g.chance(40)
	o.AllowOverwrite = g.chance(10)
	o.Target = g.n(6)
	o.KeepNames = g.chance(15)
	o.TreeShaking = g.n(3)
	o.Define = g.chance(20)
	o.Banner = g.chance(15)
	o.Charset = g.n(2)
	o.LineLimit = g.n(3)
	o.Inject = o.Bundle && g.chance(15) // without bundling esbuild emits the injected file's absolute path by design
	o.JSX = g.n(4)
	o.Packages = 0
	if g.chance(8) {
		o.Packages = 1
	}
	// o.Pure stays 0 here: marking console.log pure removes the module markers the
	// oracles rely on; C08 sets it for sibling builds only
	o.MetaAbs = g.chance(12)
	return o
}

func (o *OptModel) String() string {
	return fmt.Sprintf("%+v", *o)
}

// Build turns the model into esbuild options for the project rooted at p.Root.
func (o *OptModel) Build(p *Project) api.BuildOptions {
	b := api.BuildOptions{
		AbsWorkingDir: p.Root,
		LogLevel:      api.LogLevelSilent,
		LogLimit:      0,
		Bundle:        o.Bundle,
		Splitting:     o.Splitting,
		Metafile:      o.Metafile,
		Write:         o.Write,
		AllowOverwrite: o.AllowOverwrite,
		KeepNames:     o.KeepNames,
		Outdir:        outdirT[o.Outdir],
	}
	if o.Bundle {
		b.External = []string{"react", "react/jsx-runtime", "react/jsx-dev-runtime"}
	}
	b.EntryPoints = p.EntryPaths()
	if globOn {
		b.EntryPoints = append(b.EntryPoints, "src/entries/*.js")
	}
	b.Format = []api.Format{api.FormatESModule, api.FormatCommonJS, api.FormatIIFE}[o.Format]
	b.Platform = []api.Platform{api.PlatformBrowser, api.PlatformNode, api.PlatformNeutral}[o.Platform]
	b.MinifyWhitespace, b.MinifyIdentifiers, b.MinifySyntax = o.MinifyWS, o.MinifyIDs, o.MinifySyn
	b.Sourcemap = []api.SourceMap{api.SourceMapNone, api.SourceMapLinked, api.SourceMapInline, api.SourceMapExternal, api.SourceMapInlineAndExternal}[o.Sourcemap]
	b.SourcesContent = []api.SourcesContent{api.SourcesContentInclude, api.SourcesContentExclude, api.SourcesContentInclude}[o.SourcesContent]
	if o.Mangle {
		b.MangleProps = "^_.*_$"
		if o.MangleCache {
			b.MangleCache = map[string]interface{}{"_common_": "Z", "_kept_": false}
		}
	}
	b.LegalComments = []api.LegalComments{api.LegalCommentsDefault, api.LegalCommentsNone, api.LegalCommentsInline, api.LegalCommentsEndOfFile, api.LegalCommentsLinked, api.LegalCommentsExternal}[o.Legal]
	b.EntryNames = entryNameT[o.EntryNames]
	b.ChunkNames = chunkNameT[o.ChunkNames]
	b.AssetNames = assetNameT[o.AssetNames]
	b.PublicPath = publicPathT[o.PublicPath]
	switch o.Outbase {
	case 1:
		b.Outbase = "src"
	case 2:
		b.Outbase = "."
	case 3:
		b.Outbase = "src/lib" // deeper than most entry points: their directory relative to it is ".."
	}
	switch o.OutExt {
	case 1:
		b.OutExtension = map[string]string{".js": ".mjs"}
	case 2:
		b.OutExtension = map[string]string{".js": ".js", ".css": ".css"}
	}
	b.Loader = map[string]api.Loader{
		".png": []api.Loader{api.LoaderFile, api.LoaderDataURL, api.LoaderBinary, api.LoaderCopy, api.LoaderBase64}[o.BinLoader],
		".txt": []api.Loader{api.LoaderText, api.LoaderFile, api.LoaderCopy}[o.TxtLoader],
	}
	if o.Target == 5 {
		// an engine without import(): dynamic imports of external modules become require() calls
		b.Engines = []api.Engine{{Name: api.EngineNode, Version: "10"}}
	} else {
		b.Target = []api.Target{api.DefaultTarget, api.ESNext, api.ES2020, api.ES2017, api.ES2015}[o.Target]
	}
	b.TreeShaking = []api.TreeShaking{api.TreeShakingDefault, api.TreeShakingFalse, api.TreeShakingTrue}[o.TreeShaking]
	if o.Define {
		b.Define = map[string]string{"process.env.NODE_ENV": "\"production\"", "DEBUG": "false", "VERSION": "\"1.2.3\""}
	}
	if o.Banner {
		b.Banner = map[string]string{"js": "/* banner js */", "css": "/* banner css */"}
		b.Footer = map[string]string{"js": "/* footer js */"}
	}
	if o.Charset == 1 {
		b.Charset = api.CharsetUTF8
	}
	switch o.LineLimit {
	case 1:
		b.LineLimit = 80
	case 2:
		b.LineLimit = 200
	}
	if o.Inject {
		b.Inject = []string{"src/inject.js"}
	}
	b.JSX = []api.JSX{api.JSXTransform, api.JSXAutomatic, api.JSXPreserve, api.JSXTransform}[o.JSX]
	if o.Packages == 1 {
		b.Packages = api.PackagesExternal
	}
	if o.Format == 2 {
		b.GlobalName = "GlobalLib"
	}
	switch o.Pure {
	case 1:
		b.Pure = []string{"console.log"}
	case 2:
		b.Pure = []string{"Object.freeze", "Math.random"}
	case 3:
		if b.Define == nil {
			b.Define = map[string]string{}
		}
		b.Define["Math.PI"] = "3"
		b.Pure = []string{"console.log"}
	}
	if o.MetaAbs {
		b.AbsPaths = api.MetafileAbsPath
	}
	return b
}

func sortedKeys(m map[string]string) []string {
	ks := make([]string, 0, len(m))
	for k := range m {
		ks = append(ks, k)
	}
	sort.Strings(ks)
	return ks
}

func hasHashT(s string) bool { return strings.Contains(s, "[hash]") }
