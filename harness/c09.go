package harness

// C09 — incremental rebuilds and watch mode are equivalent to clean builds (DESIGN §4.2).

import (
	"path"
	"fmt"
	"strings"

	"github.com/evanw/esbuild/pkg/verifsim"
)

func globFile(dir, k int) string {
	if dir == 0 {
		return fmt.Sprintf("src/pages/p%d.js", k)
	}
	return fmt.Sprintf("src/parts/q%d.json", k)
}

func globContent(dir, k, step int) string {
	if dir == 0 {
		return fmt.Sprintf("console.log(\"PAGE%d@%d\");\nexport default %d;\n", k, step, k)
	}
	return fmt.Sprintf("{\"part\": %d, \"step\": %d}", k, step)
}

func init() { scenarios["C09"] = scenarioC09 }

func scenarioC09(rc *RunCtx) *Violation {
	if rc.G.n(10) == 0 {
		return scenarioC09Watcher(rc)
	}
	g := rc.G
	p := GenProject(g, "/p")
	o := GenOptions(g, p)
	o.Metafile = true
	if g.chance(20) {
		// a plain CommonJS file inside a package whose package.json says "type": "module":
		// its diagnostics carry notes that point at the "type" field
		p.Legacy = true
		p.HasRootPJ = true
		p.PkgType = "module"
		rc.Probe("legacy_module_profile")
	}
	if o.Inject {
		p.Extra["src/inject.js"] = "export let injected = 'INJ';\nconsole.log('inject');\n"
	}
	if g.n(8) == 0 {
		// a style-sheet site next to the modules: CSS entry points, @layer lists, sheets imported twice
		o.Bundle = true
		p.AddCSSSite(g)
		rc.Probe("profile_css_site")
	}
	d := newDisk(g)
	d.Gran = granChoices[g.n(len(granChoices))]
	cfg := HistCfg{Steps: 2 + g.n(7), Watch: g.n(2) == 1, InPlace: g.n(2) == 1, EditsPerStep: 3}
	if rc.Tier == "thorough" {
		cfg.Steps += g.n(8)
	}
	// glob profile: an entry point whose import()/require() paths are patterns, so the
	// build enumerates whole directories (which may be missing or empty at first); files
	// then appear in and vanish from those directories
	glob := g.n(4) == 0
	if glob {
		o.Bundle = true
		p.Extra["src/globber.js"] = "console.log(\"GLOBBER\");\nexport const load = (n) => import(\"./pages/\" + n + \".js\");\nexport const part = (n) => require(\"./parts/\" + n + \".json\");\n"
		p.ExtraEntries = append(p.ExtraEntries, "src/globber.js")
		dirs := []string{"src/pages", "src/parts"}
		for i, dir := range dirs {
			switch g.n(3) {
			case 0: // missing
			case 1:
				d.MkdirAll(p.Root + "/" + dir) // present and empty
			case 2:
				p.Extra[globFile(i, 0)] = globContent(i, 0, 0)
			}
		}
		cfg.ExtraEdit = func(step int, pp *Project, dd *verifsim.Disk) string {
			if g.n(2) == 0 {
				return ""
			}
			i, k := g.n(2), g.n(3)
			f := globFile(i, k)
			if _, ok := pp.Extra[f]; ok && !pp.ExtraDel[f] {
				pp.ExtraDel[f] = true
				dd.RemoveAll(pp.Root + "/" + f)
				what := "remove " + f
				if g.n(2) == 0 {
					dd.PruneEmptyDirs(pp.Root+"/"+f, pp.Root+"/src")
					what += " (pruning an emptied directory)"
				}
				return what
			}
			pp.Extra[f] = globContent(i, k, step)
			delete(pp.ExtraDel, f)
			pp.WriteTo(dd, cfg.InPlace)
			return "add " + f
		}
		rc.Probe("glob_profile")
	}
	p.WriteTo(d, false)
	rc.Note(fmt.Sprintf("proj:%x gran:%d watch:%v inplace:%v", fnv64(fmt.Sprint(describeProject(p, o))), d.Gran, cfg.Watch, cfg.InPlace))
	recs, s := RunHistory(rc, p, o, d, cfg)
	rc.Sample("project", describeProject(p, o))
	rc.Sample("history", histSample(recs))
	rc.Sample("mtime_granularity_ns", d.Gran)
	if s.Panic != nil {
		rc.Probe("history_aborted")
		return nil
	}
	var hist []string
	var prevFresh *Canon
	for _, r := range recs {
		hist = append(hist, strings.Join(r.Edits, "; "))
		if strings.Contains(hist[len(hist)-1], "base config file appears") {
			rc.Probe("tsconfig_base_appears")
			if r.HasDirty {
				rc.Probe("tsconfig_base_appears_in_watch_mode")
			}
		}
		if r.Aborted != "" {
			rc.Probe("context_error")
			debugErr(rc, r)
			return nil
		}
		f := FreshBuild(rc, r)
		if f.Aborted != "" {
			rc.Probe("fresh_aborted")
			return nil
		}
		if len(r.Res.Errors) > 0 {
			rc.Probe("rebuild_with_errors")
			debugErr(rc, r)
		}
		if class, detail := r.Canon.Diff(f.Canon); class != "" {
			key := class
			if strings.HasSuffix(class, "-order") && orderKey(r.Canon, f.Canon, class) == "locationless-only" {
				// order of location-less diagnostics is schedule-dependent (C08's subject)
				rc.Probe("ignored_locationless_order")
			} else {
				if class == "metafile" {
					if dups := DuplicateKeys(r.Res.Metafile); len(dups) > 0 {
						key += ":duplicate-key:" + strings.Join(dups, ",")
					}
				}
				return &Violation{Class: "rebuild-differs-" + class, Key: key,
					Detail: fmt.Sprintf("rebuild %d of the context differs from a fresh build of the same tree: %s; history: %s", r.Step, detail, strings.Join(hist, " || "))}
			}
		}
		// Oracle A2: a fresh build leaves every reported output on disk with the reported bytes;
		// so must the rebuild (the returned results alone do not show a write that was skipped
		// because of state kept from earlier builds of the context)
		if r.Opts.Write && buildOK(r.Res) && buildOK(f.Res) {
			lookup := func(rec *BuildRec, pth string) (string, bool) {
				if v, ok := rec.After[pth]; ok {
					return v, true
				}
				v, ok := rec.After[rec.Snap.RealPath(pth)]
				return v, ok
			}
			freshOK := true
			for _, of := range f.Res.OutputFiles {
				if got, ok := lookup(f, path.Clean(of.Path)); !ok || got != string(of.Contents) {
					freshOK = false
				}
			}
			if freshOK {
				rc.Probe("rebuild_disk_checked")
				for _, of := range r.Res.OutputFiles {
					got, ok := lookup(r, path.Clean(of.Path))
					if !ok || got != string(of.Contents) {
						what := "is not on disk"
						if ok {
							what = fmt.Sprintf("is on disk with %d other bytes", len(got))
						}
						return &Violation{Class: "rebuild-differs-on-disk", Key: "on-disk",
							Detail: fmt.Sprintf("rebuild %d of the context reports output %s (%d bytes), which %s afterwards, while a fresh build of the same tree leaves all its outputs on disk; history: %s",
								r.Step, of.Path, len(of.Contents), what, strings.Join(hist, " || "))}
					}
				}
			}
		}
		// Oracle B: every edit that changes the fresh result must be reported dirty
		if r.HasDirty && prevFresh != nil {
			changed := !prevFresh.Equal(f.Canon)
			if changed {
				rc.Probe("fresh_result_changed")
			}
			if len(r.Dirty) > 0 {
				rc.Probe("watch_dirty_reported")
			}
			if changed && len(r.Dirty) == 0 {
				class, detail := prevFresh.Diff(f.Canon)
				return &Violation{Class: "watch-missed-change", Key: class,
					Detail: fmt.Sprintf("step %d edits (%s) change the result of a fresh build (%s) but no watch predicate of the previous build reports a change; history: %s",
						r.Step, strings.Join(r.Edits, "; "), detail, strings.Join(hist, " || "))}
			}
		}
		prevFresh = f.Canon
	}
	rc.Note("hist:" + fmt.Sprintf("%x", fnv64(strings.Join(hist, "|"))))
	return nil
}
