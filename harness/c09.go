package harness

// C09 — incremental rebuilds and watch mode are equivalent to clean builds (DESIGN §4.2).

import (
	"fmt"
	"strings"
)

func init() { scenarios["C09"] = scenarioC09 }

func scenarioC09(rc *RunCtx) *Violation {
	if rc.G.n(10) == 0 {
		return scenarioC09Watcher(rc)
	}
	g := rc.G
	p := GenProject(g, "/p")
	o := GenOptions(g, p)
	o.Metafile = true
	if o.Inject {
		p.Extra["src/inject.js"] = "export let injected = 'INJ';\nconsole.log('inject');\n"
	}
	d := newDisk(g)
	d.Gran = granChoices[g.n(len(granChoices))]
	cfg := HistCfg{Steps: 2 + g.n(7), Watch: g.n(2) == 1, InPlace: g.n(2) == 1, EditsPerStep: 3}
	if rc.Tier == "thorough" {
		cfg.Steps += g.n(8)
	}
	p.WriteTo(d, false)
	rc.Note(fmt.Sprintf("proj:%x gran:%d watch:%v inplace:%v", fnv64(fmt.Sprint(describeProject(p, o))), d.Gran, cfg.Watch, cfg.InPlace))
	recs, s := RunHistory(rc, p, o, d, cfg)
	rc.Sample("project", describeProject(p, o))
	rc.Sample("history", histSample(recs))
	rc.Sample("mtime_granularity_ns", d.Gran)
	if s.Panic != nil {
		rc.Probe("history_aborted")
		return nil
	}
	var hist []string
	var prevFresh *Canon
	for _, r := range recs {
		hist = append(hist, strings.Join(r.Edits, "; "))
		if r.Aborted != "" {
			rc.Probe("context_error")
			debugErr(rc, r)
			return nil
		}
		f := FreshBuild(rc, r)
		if f.Aborted != "" {
			rc.Probe("fresh_aborted")
			return nil
		}
		if len(r.Res.Errors) > 0 {
			rc.Probe("rebuild_with_errors")
			debugErr(rc, r)
		}
		if class, detail := r.Canon.Diff(f.Canon); class != "" {
			key := class
			if strings.HasSuffix(class, "-order") && orderKey(r.Canon, f.Canon, class) == "locationless-only" {
				// order of location-less diagnostics is schedule-dependent (C08's subject)
				rc.Probe("ignored_locationless_order")
			} else {
				if class == "metafile" {
					if dups := DuplicateKeys(r.Res.Metafile); len(dups) > 0 {
						key += ":duplicate-key:" + strings.Join(dups, ",")
					}
				}
				return &Violation{Class: "rebuild-differs-" + class, Key: key,
					Detail: fmt.Sprintf("rebuild %d of the context differs from a fresh build of the same tree: %s; history: %s", r.Step, detail, strings.Join(hist, " || "))}
			}
		}
		// Oracle B: every edit that changes the fresh result must be reported dirty
		if r.HasDirty && prevFresh != nil {
			changed := !prevFresh.Equal(f.Canon)
			if changed {
				rc.Probe("fresh_result_changed")
			}
			if len(r.Dirty) > 0 {
				rc.Probe("watch_dirty_reported")
			}
			if changed && len(r.Dirty) == 0 {
				class, detail := prevFresh.Diff(f.Canon)
				return &Violation{Class: "watch-missed-change", Key: class,
					Detail: fmt.Sprintf("step %d edits (%s) change the result of a fresh build (%s) but no watch predicate of the previous build reports a change; history: %s",
						r.Step, strings.Join(r.Edits, "; "), detail, strings.Join(hist, " || "))}
			}
		}
		prevFresh = f.Canon
	}
	rc.Note("hist:" + fmt.Sprintf("%x", fnv64(strings.Join(hist, "|"))))
	return nil
}
