package harness

import (
	"encoding/json"
	"fmt"
	"regexp"
	"sort"
	"strings"

	"github.com/evanw/esbuild/pkg/api"
)

// Canon is the canonical, comparable form of a build result.
type Canon struct {
	Files  []CFile
	Meta   string
	Mangle string
	Errs   []string
	Warns  []string
}

type CFile struct {
	Path     string // relative to the project root
	Hash     string
	Contents string
}

func fmtMsg(m api.Message, root string) string {
	var sb strings.Builder
	fmt.Fprintf(&sb, "[%s|%s] %s", m.ID, m.PluginName, m.Text)
	if m.Location != nil {
		l := m.Location
		fmt.Fprintf(&sb, " @%s:%s:%d:%d:%d %q sugg=%q", l.Namespace, stripRoot(l.File, root), l.Line, l.Column, l.Length, l.LineText, l.Suggestion)
	}
	for _, n := range m.Notes {
		fmt.Fprintf(&sb, "\n   note: %s", n.Text)
		if n.Location != nil {
			l := n.Location
			fmt.Fprintf(&sb, " @%s:%d:%d:%d %q", stripRoot(l.File, root), l.Line, l.Column, l.Length, l.LineText)
		}
	}
	out := strings.ReplaceAll(sb.String(), root+"/", "<root>/")
	if parent := dirOf(root); parent != "" {
		out = strings.ReplaceAll(out, parent+"/", "/")
	}
	return out
}

// stripRoot makes p relative to the project root; paths outside the root (an outdir
// such as "../outside") are made relative to the root's parent directory. All roots
// used by the harness end in the same directory name, so that relative paths between
// the output directory and the sources do not depend on the location.
func stripRoot(p, root string) string {
	if strings.HasPrefix(p, root+"/") {
		return p[len(root)+1:]
	}
	if p == root {
		return "."
	}
	if parent := dirOf(root); parent != "" && strings.HasPrefix(p, parent+"/") {
		return "../" + p[len(parent)+1:]
	}
	if strings.HasPrefix(p, "/") && dirOf(root) == "" {
		return ".." + p
	}
	return p
}

func canonMangle(m map[string]interface{}) string {
	if m == nil {
		return ""
	}
	ks := make([]string, 0, len(m))
	for k := range m {
		ks = append(ks, k)
	}
	sort.Strings(ks)
	var sb strings.Builder
	for _, k := range ks {
		fmt.Fprintf(&sb, "%s=%v;", k, m[k])
	}
	return sb.String()
}

// MakeCanon converts a result. Absolute output paths are made relative to root; no
// other normalisation is applied (output bytes, metafile and messages are compared as
// they are).
func MakeCanon(r api.BuildResult, root string) *Canon {
	c := &Canon{Meta: r.Metafile, Mangle: canonMangle(r.MangleCache)}
	for _, f := range r.OutputFiles {
		c.Files = append(c.Files, CFile{Path: stripRoot(f.Path, root), Hash: f.Hash, Contents: string(f.Contents)})
	}
	for _, e := range r.Errors {
		c.Errs = append(c.Errs, fmtMsg(e, root))
	}
	for _, w := range r.Warnings {
		c.Warns = append(c.Warns, fmtMsg(w, root))
	}
	return c
}

func firstDiff(a, b string) string {
	n := len(a)
	if len(b) < n {
		n = len(b)
	}
	i := 0
	for i < n && a[i] == b[i] {
		i++
	}
	lo := i - 60
	if lo < 0 {
		lo = 0
	}
	cut := func(s string) string {
		hi := i + 60
		if hi > len(s) {
			hi = len(s)
		}
		if lo > len(s) {
			return ""
		}
		return s[lo:hi]
	}
	return fmt.Sprintf("at byte %d: %q vs %q", i, cut(a), cut(b))
}

// Diff describes the first difference between two canonical results ("" = equal).
// The first return value is a short class, used to key known findings and to decide
// whether a shrunk run still shows "the same" violation.
func (a *Canon) Diff(b *Canon) (class string, detail string) {
	if len(a.Errs) != len(b.Errs) {
		return "errors-differ", fmt.Sprintf("%d errors vs %d: %v vs %v", len(a.Errs), len(b.Errs), a.Errs, b.Errs)
	}
	sameSet := func(x, y []string) bool {
		xs, ys := append([]string(nil), x...), append([]string(nil), y...)
		sort.Strings(xs)
		sort.Strings(ys)
		return strings.Join(xs, "\x00") == strings.Join(ys, "\x00")
	}
	for i := range a.Errs {
		if a.Errs[i] != b.Errs[i] {
			if sameSet(a.Errs, b.Errs) {
				return "errors-order", fmt.Sprintf("same errors, different order: %v vs %v", a.Errs, b.Errs)
			}
			return "errors-differ", fmt.Sprintf("error %d: %s vs %s", i, a.Errs[i], b.Errs[i])
		}
	}
	if len(a.Warns) != len(b.Warns) {
		return "warnings-differ", fmt.Sprintf("%d warnings vs %d: %v vs %v", len(a.Warns), len(b.Warns), a.Warns, b.Warns)
	}
	for i := range a.Warns {
		if a.Warns[i] != b.Warns[i] {
			if sameSet(a.Warns, b.Warns) {
				return "warnings-order", fmt.Sprintf("same warnings, different order: %v vs %v", a.Warns, b.Warns)
			}
			return "warnings-differ", fmt.Sprintf("warning %d: %s vs %s", i, a.Warns[i], b.Warns[i])
		}
	}
	if len(a.Files) != len(b.Files) {
		return "output-set", fmt.Sprintf("%d output files vs %d: %v vs %v", len(a.Files), len(b.Files), a.paths(), b.paths())
	}
	for i := range a.Files {
		if a.Files[i].Path != b.Files[i].Path {
			if sameSet(a.paths(), b.paths()) {
				return "output-order", fmt.Sprintf("same output paths, different order: %v vs %v", a.paths(), b.paths())
			}
			return "output-set", fmt.Sprintf("output %d: path %s vs %s (all: %v vs %v)", i, a.Files[i].Path, b.Files[i].Path, a.paths(), b.paths())
		}
	}
	for i := range a.Files {
		if a.Files[i].Contents != b.Files[i].Contents {
			return "output-bytes", fmt.Sprintf("output %s differs %s", a.Files[i].Path, firstDiff(a.Files[i].Contents, b.Files[i].Contents))
		}
		if a.Files[i].Hash != b.Files[i].Hash {
			return "output-hash", fmt.Sprintf("output %s: hash %s vs %s", a.Files[i].Path, a.Files[i].Hash, b.Files[i].Hash)
		}
	}
	if a.Meta != b.Meta {
		return "metafile", "metafile differs " + firstDiff(a.Meta, b.Meta)
	}
	if a.Mangle != b.Mangle {
		return "mangle-cache", "mangle cache differs " + firstDiff(a.Mangle, b.Mangle)
	}
	return "", ""
}

func (a *Canon) paths() []string {
	var out []string
	for _, f := range a.Files {
		out = append(out, f.Path)
	}
	return out
}

func (a *Canon) Equal(b *Canon) bool {
	c, _ := a.Diff(b)
	return c == ""
}

// ---- metafile model ----

type MetaImport struct {
	Path     string `json:"path"`
	Kind     string `json:"kind"`
	External bool   `json:"external"`
	Original string `json:"original"`
}

type MetaInput struct {
	Bytes   int          `json:"bytes"`
	Imports []MetaImport `json:"imports"`
	Format  string       `json:"format"`
}

type MetaOutInput struct {
	BytesInOutput int `json:"bytesInOutput"`
}

type MetaOutput struct {
	Bytes      int                     `json:"bytes"`
	Inputs     map[string]MetaOutInput `json:"inputs"`
	Imports    []MetaImport            `json:"imports"`
	Exports    []string                `json:"exports"`
	EntryPoint string                  `json:"entryPoint"`
	CSSBundle  string                  `json:"cssBundle"`
}

type Metafile struct {
	Inputs  map[string]MetaInput  `json:"inputs"`
	Outputs map[string]MetaOutput `json:"outputs"`
}

// A file that is imported with different import attributes is a separate module per
// attribute set; the metafile then names it "path with { type: 'json' }". The oracles
// relate keys to files, so such entries are folded into the file's entry (bytes in an
// output are summed, imports are united). The raw text is still scanned for duplicate
// keys, and C09 compares the raw metafile of a rebuild with that of a fresh build.
var reWithSuffix = regexp.MustCompile(` with \{[^{}]*\}$`)

func baseKey(k string) string { return reWithSuffix.ReplaceAllString(k, "") }

func ParseMetafile(s string) (*Metafile, error) {
	var m Metafile
	if err := json.Unmarshal([]byte(s), &m); err != nil {
		return nil, err
	}
	if !strings.Contains(s, " with {") {
		return &m, nil
	}
	fixImports := func(imps []MetaImport) {
		for i := range imps {
			imps[i].Path = baseKey(imps[i].Path)
		}
	}
	ins := map[string]MetaInput{}
	for _, k := range sortedMetaKeys(m.Inputs) {
		v := m.Inputs[k]
		fixImports(v.Imports)
		b := baseKey(k)
		if old, ok := ins[b]; ok {
			old.Imports = append(old.Imports, v.Imports...)
			ins[b] = old
		} else {
			ins[b] = v
		}
	}
	m.Inputs = ins
	for ok, o := range m.Outputs {
		fixImports(o.Imports)
		merged := map[string]MetaOutInput{}
		for k, v := range o.Inputs {
			b := baseKey(k)
			x := merged[b]
			x.BytesInOutput += v.BytesInOutput
			merged[b] = x
		}
		o.Inputs = merged
		o.EntryPoint = baseKey(o.EntryPoint)
		m.Outputs[ok] = o
	}
	return &m, nil
}

func sortedMetaKeys(m map[string]MetaInput) []string {
	ks := make([]string, 0, len(m))
	for k := range m {
		ks = append(ks, k)
	}
	sort.Strings(ks)
	return ks
}

// DuplicateKeys scans the raw JSON text of a metafile for object keys that occur twice
// in the same object (encoding/json silently keeps the last one).
func DuplicateKeys(s string) []string {
	dec := json.NewDecoder(strings.NewReader(s))
	var dups []string
	type frame struct {
		isObj bool
		keys  map[string]bool
		expectKey bool
	}
	var stack []*frame
	for {
		tok, err := dec.Token()
		if err != nil {
			break
		}
		switch t := tok.(type) {
		case json.Delim:
			switch t {
			case '{':
				if n := len(stack); n > 0 && stack[n-1].isObj {
					stack[n-1].expectKey = true
				}
				stack = append(stack, &frame{isObj: true, keys: map[string]bool{}, expectKey: true})
			case '[':
				if n := len(stack); n > 0 && stack[n-1].isObj {
					stack[n-1].expectKey = true
				}
				stack = append(stack, &frame{})
			case '}', ']':
				stack = stack[:len(stack)-1]
			}
		case string:
			if n := len(stack); n > 0 && stack[n-1].isObj {
				f := stack[n-1]
				if f.expectKey {
					if f.keys[t] {
						dups = append(dups, t)
					}
					f.keys[t] = true
					f.expectKey = false
				} else {
					f.expectKey = true
				}
			}
		default:
			if n := len(stack); n > 0 && stack[n-1].isObj {
				stack[n-1].expectKey = true
			}
		}
	}
	return dups
}
