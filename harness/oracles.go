package harness

// Oracles over one recorded build: metafile accounting (C19), disk mutation log vs
// reported outputs (C17), references between outputs (C18).

import (
	"fmt"
	"path"
	"regexp"
	"sort"
	"strings"

	"github.com/evanw/esbuild/pkg/api"
	"github.com/evanw/esbuild/pkg/verifsim"
)

func absOf(root, rel string) string {
	if strings.HasPrefix(rel, "/") {
		return path.Clean(rel)
	}
	return path.Clean(root + "/" + rel)
}

func buildOK(r api.BuildResult) bool { return len(r.Errors) == 0 }

// ---------- C19 ----------

func moduleLoadRead(op verifsim.Op) bool {
	return op.Kind == "readfile" && op.Err == "" && (strings.HasPrefix(op.Caller, "cache.") || strings.HasPrefix(op.Caller, "bundler.") || strings.HasPrefix(op.Caller, "resolver."))
}

// CheckMetafile checks the I/O-accounting clauses of C19 for one build.
func CheckMetafile(rc *RunCtx, rec *BuildRec, label string) *Violation {
	r := rec.Res
	if !buildOK(r) || r.Metafile == "" {
		return nil
	}
	root := rec.Model.Root
	viol := func(class, key, f string, a ...interface{}) *Violation {
		return &Violation{Class: "metafile-" + class, Key: key, Detail: fmt.Sprintf("%s build of step %d: ", label, rec.Step) + fmt.Sprintf(f, a...)}
	}
	mf, err := ParseMetafile(r.Metafile)
	if err != nil {
		return viol("invalid-json", "", "metafile is not valid JSON: %v", err)
	}
	if dups := DuplicateKeys(r.Metafile); len(dups) > 0 {
		return viol("duplicate-key", strings.Join(dups, ","), "metafile lists key(s) %v twice in one object", dups)
	}
	rc.Probe("metafile_checked")
	metaAbs := rec.Opts.AbsPaths&api.MetafileAbsPath != 0
	inKey := func(rel string) string {
		if metaAbs {
			return absOf(root, rel)
		}
		return path.Clean(rel)
	}
	styleOK := func(pth string) bool {
		if strings.HasPrefix(pth, "<") || strings.HasPrefix(pth, "data:") || (strings.Contains(pth, ":") && !strings.HasPrefix(pth, "/")) {
			return true
		}
		return strings.HasPrefix(pth, "/") == metaAbs
	}
	for k, in := range mf.Inputs {
		if !styleOK(k) {
			return viol("path-style", "", "input key %q does not use the configured metafile path style (absolute=%v)", k, metaAbs)
		}
		for _, im := range in.Imports {
			if !im.External && !styleOK(im.Path) {
				return viol("path-style", "", "import %q of input %q does not use the configured metafile path style (absolute=%v)", im.Path, k, metaAbs)
			}
		}
	}
	for k, mo := range mf.Outputs {
		if !styleOK(k) {
			return viol("path-style", "", "output key %q does not use the configured metafile path style (absolute=%v)", k, metaAbs)
		}
		for _, im := range mo.Imports {
			if !im.External && !styleOK(im.Path) {
				return viol("path-style", "", "import %q of output %q does not use the configured metafile path style (absolute=%v)", im.Path, k, metaAbs)
			}
		}
		if mo.EntryPoint != "" && !styleOK(mo.EntryPoint) {
			return viol("path-style", "", "entryPoint %q of output %q does not use the configured metafile path style", mo.EntryPoint, k)
		}
		if mo.CSSBundle != "" && !styleOK(mo.CSSBundle) {
			return viol("path-style", "", "cssBundle %q of output %q does not use the configured metafile path style", mo.CSSBundle, k)
		}
		for ik := range mo.Inputs {
			if !styleOK(ik) {
				return viol("path-style", "", "input %q of output %q does not use the configured metafile path style", ik, k)
			}
		}
	}
	// outputs <-> OutputFiles
	outBytes := map[string]string{}
	for _, f := range r.OutputFiles {
		outBytes[path.Clean(f.Path)] = string(f.Contents)
	}
	metaOut := map[string]MetaOutput{}
	for k, v := range mf.Outputs {
		metaOut[absOf(root, k)] = v
	}
	for p := range outBytes {
		if _, ok := metaOut[p]; !ok {
			return viol("missing-output", "", "emitted file %s is not listed in the metafile outputs %v", p, keysOf(metaOut))
		}
	}
	for p, mo := range metaOut {
		c, ok := outBytes[p]
		if !ok {
			return viol("phantom-output", "", "metafile lists output %s which the build did not emit (emitted: %v)", p, keysOfS(outBytes))
		}
		if mo.Bytes != len(c) {
			return viol("output-bytes", "", "metafile says %s has %d bytes, the emitted file has %d", p, mo.Bytes, len(c))
		}
		if rec.Opts.Write {
			if disk, ok := rec.After[p]; ok && len(disk) != mo.Bytes && !rec.Faulted {
				return viol("output-bytes-on-disk", "", "metafile says %s has %d bytes, the file on disk has %d", p, mo.Bytes, len(disk))
			}
		}
	}
	// inputs
	readNow := map[string]int{}
	for _, op := range rec.Log {
		if moduleLoadRead(op) {
			readNow[op.Path] = op.N
		}
	}
	inputAbs := map[string]bool{}
	for k, in := range mf.Inputs {
		if strings.HasPrefix(k, "<") || strings.Contains(k, ":") {
			continue // <stdin>, <runtime>, namespaced virtual modules
		}
		p := absOf(root, k)
		inputAbs[k] = true
		want := -1
		if n, ok := readNow[p]; ok {
			want = n
			rc.Probe("metafile_input_read_this_build")
		} else if c, ok := rec.Before[p]; ok {
			want = len(c) // served from the context's cache: must be the current size
			rc.Probe("metafile_input_from_cache")
		} else {
			return viol("phantom-input", "", "metafile lists input %q but no such file exists in the tree the build saw and the build did not read it", k)
		}
		if in.Bytes != want && !rec.Faulted {
			return viol("input-bytes", "", "metafile says input %q has %d bytes, the content the build read / the file in the tree has %d", k, in.Bytes, want)
		}
	}
	for k, in := range mf.Inputs {
		for _, im := range in.Imports {
			if !im.External {
				if _, ok := mf.Inputs[im.Path]; !ok {
					return viol("dangling-input-import", "", "input %q lists non-external import %q which is not an input", k, im.Path)
				}
			}
		}
	}
	entrySet := map[string]bool{}
	for _, e := range rec.Opts.EntryPoints {
		entrySet[path.Clean(e)] = true
	}
	for p, mo := range metaOut {
		sum := 0
		for ik, iv := range mo.Inputs {
			if _, ok := mf.Inputs[ik]; !ok {
				return viol("output-input-not-listed", "", "output %s attributes bytes to %q which is not a top-level input", p, ik)
			}
			if iv.BytesInOutput < 0 {
				return viol("negative-bytes", "", "output %s: negative bytesInOutput for %q", p, ik)
			}
			sum += iv.BytesInOutput
		}
		if sum > mo.Bytes {
			return viol("bytes-exceed-size", "", "output %s: bytesInOutput sums to %d, more than the file size %d", p, sum, mo.Bytes)
		}
		for _, im := range mo.Imports {
			if !im.External && !strings.HasPrefix(im.Path, "data:") {
				if _, ok := metaOut[absOf(root, im.Path)]; !ok {
					return viol("dangling-output-import", "", "output %s lists non-external import %q which is not an output", p, im.Path)
				}
			}
		}
		if mo.EntryPoint != "" {
			if _, ok := mf.Inputs[mo.EntryPoint]; !ok {
				return viol("entry-not-input", "", "output %s has entryPoint %q which is not an input", p, mo.EntryPoint)
			}
			if !entrySet[path.Clean(mo.EntryPoint)] && !strings.Contains(strings.Join(rec.Opts.EntryPoints, " "), "*") {
				// dynamic-import chunks are entry points of their own; they must be inputs, which was checked
				rc.Probe("metafile_dynamic_entry")
			}
		}
		if mo.CSSBundle != "" {
			if _, ok := metaOut[absOf(root, mo.CSSBundle)]; !ok {
				return viol("dangling-css-bundle", "", "output %s has cssBundle %q which is not an output", p, mo.CSSBundle)
			}
		}
	}
	// an input that was read in this build was read by the bundler as a module or asset
	// (a package.json or tsconfig.json that was only consulted is not an input)
	loadedByBundler := map[string]bool{}
	consultedOnly := map[string]bool{}
	for _, op := range rec.Log {
		if op.Kind == "readfile" && op.Err == "" {
			if strings.Contains(op.Caller, "bundler.") && !strings.Contains(op.Caller, "resolver.") {
				loadedByBundler[op.Path] = true
			} else if strings.Contains(op.Caller, "resolver.") {
				consultedOnly[op.Path] = true
			}
		}
	}
	for k := range mf.Inputs {
		if strings.HasPrefix(k, "<") || (strings.Contains(k, ":") && !strings.HasPrefix(k, "/")) {
			continue
		}
		pth := absOf(root, k)
		if consultedOnly[pth] && !loadedByBundler[pth] && (strings.HasSuffix(pth, "/package.json") || strings.HasSuffix(pth, "/tsconfig.json")) {
			return viol("input-only-consulted", "", "metafile lists %q as an input, but the build only consulted it for resolution and never loaded it as a module", k)
		}
	}
	// resolved imports of inputs: kind and external flag, against the generator's model
	if rec.Opts.Bundle {
		for _, m := range rec.Model.Mods {
			if m.Deleted || m.Broken || !isJS(m.Kind) || shadowed(rec.Model, m) {
				continue
			}
			in, ok := mf.Inputs[inKey(m.Path)]
			if !ok {
				continue
			}
			for _, im := range m.Imports {
				wantKind := "import-statement"
				switch im.Style {
				case ImpDynamic, ImpDynamicList:
					wantKind = "dynamic-import"
				case ImpRequire:
					wantKind = "require-call"
				}
				if im.Target < 0 {
					if rec.Opts.Packages == api.PackagesExternal {
						for _, x := range in.Imports {
							if x.Path == im.Pkg {
								rc.Probe("input_import_external_checked")
								if !x.External {
									return viol("external-flag-missing", "", "input %q imports package %q with Packages:external but the metafile does not flag the import as external", m.Path, im.Pkg)
								}
							}
						}
					}
					continue
				}
				t := rec.Model.Mods[im.Target]
				if t.Deleted || shadowed(rec.Model, t) {
					continue
				}
				for _, x := range in.Imports {
					if x.Path == inKey(t.Path) && !x.External {
						rc.Probe("input_import_kind_checked")
						// one module may import the same file in several ways only through edits of the
						// model; the model keeps one import per target, so the kind is unambiguous
						if x.Kind != wantKind {
							return viol("import-kind", "", "input %q imports %q with a %s in its source, the metafile says kind %q", m.Path, t.Path, wantKind, x.Kind)
						}
					}
				}
			}
		}
	}
	// the import statements of the emitted code agree with the outputs' "imports": a
	// relative import that resolves to a file of this build is listed as a non-external
	// import of that file, and no emitted file is reported as external
	if rec.Opts.Bundle {
		for p, mo := range metaOut {
			if !(strings.HasSuffix(p, ".js") || strings.HasSuffix(p, ".mjs")) {
				continue
			}
			listed := map[string]bool{}
			for _, im := range mo.Imports {
				tgt := absOf(root, im.Path)
				if im.External {
					if _, emitted := outBytes[tgt]; emitted && (strings.HasPrefix(im.Path, "./") || strings.HasPrefix(im.Path, "../") || strings.HasPrefix(im.Path, "/") || !strings.Contains(im.Path, ":")) && rec.Opts.PublicPath == "" {
						if _, isKey := metaOut[tgt]; isKey && strings.Contains(im.Path, "/") {
							return viol("emitted-file-marked-external", "", "output %s lists import %q as external although the build emits that file", p, im.Path)
						}
					}
					continue
				}
				listed[tgt] = true
			}
			c := outBytes[p]
			if rec.Opts.LineLimit > 0 {
				c = strings.ReplaceAll(c, "\\\n", "")
			}
			// external package imports: the kind the metafile gives is the form the code uses
			for _, im := range mo.Imports {
				// (only where the forms are recognisable: ES module output - other formats turn
				// import statements into require calls - and helper names not minified)
				if !im.External || !rePkgSpec.MatchString(im.Path) || rec.Opts.Format != api.FormatESModule || rec.Opts.MinifyIdentifiers {
					continue
				}
				q := regexp.QuoteMeta(im.Path)
				forms := map[string]*regexp.Regexp{
					"require-call":     regexp.MustCompile(`(?:^|[^\w$.])(?:__)?require\(\s*["']` + q + `["']\s*\)`),
					"dynamic-import":   regexp.MustCompile(`(?:^|[^\w$.])import\(\s*["']` + q + `["']\s*\)`),
					"import-statement": regexp.MustCompile(`(?:\bfrom|\bimport)\s*["']` + q + `["']`),
				}
				re, known := forms[im.Kind]
				if !known {
					continue
				}
				rc.Probe("external_import_kind_crosschecked")
				if !re.MatchString(c) {
					var has []string
					for k, r2 := range forms {
						if r2.MatchString(c) {
							has = append(has, k)
						}
					}
					sort.Strings(has)
					if len(has) > 0 {
						return viol("external-import-kind-wrong", "", "output %s lists the external import %q with kind %q, but its code imports it as %v", p, im.Path, im.Kind, has)
					}
				}
			}
			for _, re := range []*regexp.Regexp{reJSFrom, reJSCall} {
				for _, m := range re.FindAllStringSubmatch(c, -1) {
					ref := m[1]
					if !strings.HasPrefix(ref, "./") && !strings.HasPrefix(ref, "../") {
						continue
					}
					tgt := path.Clean(path.Dir(p) + "/" + ref)
					if _, emitted := outBytes[tgt]; !emitted {
						continue
					}
					if !(strings.HasSuffix(tgt, ".js") || strings.HasSuffix(tgt, ".mjs") || strings.HasSuffix(tgt, ".css")) {
						continue
					}
					rc.Probe("output_import_crosschecked")
					if !listed[tgt] {
						return viol("output-import-not-listed", "", "the code of %s imports %q (= %s, emitted by this build) but the metafile does not list it as a non-external import of that output (listed: %v)", p, ref, tgt, mo.Imports)
					}
				}
			}
		}
	}
	// every configured entry point that is a module of the model appears as an input
	if rec.Opts.Bundle {
		for _, e := range rec.Opts.EntryPoints {
			if _, exists := rec.Before[absOf(root, e)]; !exists {
				continue // resolved to something else (e.g. x.js -> x.ts) or not at all
			}
			if _, ok := mf.Inputs[inKey(e)]; !ok && !strings.Contains(e, "*") {
				return viol("entry-missing", "", "entry point %q is not listed as an input (inputs: %v)", e, keysOfIn(mf.Inputs))
			}
		}
	}
	// segment identity: in an unminified bundle every module's code follows a
	// "// <path>" line and is followed by a blank line and the next module's comment;
	// the bytes attributed to the module are exactly that segment
	if v := checkSegments(rc, rec, mf, metaOut, outBytes, viol); v != nil {
		return v
	}
	// marker invariant: marker of module m in output o <=> bytesInOutput > 0
	for _, m := range rec.Model.Mods {
		if m.Deleted || m.Kind == "bin" {
			continue
		}
		marker := m.marker()
		if m.Kind == "css" {
			marker = fmt.Sprintf(".M%dv%d", m.ID, m.Version)
		}
		for p, mo := range metaOut {
			if strings.HasSuffix(p, ".map") || strings.HasSuffix(p, ".LEGAL.txt") {
				continue
			}
			if m.Kind == "txt" && rec.Opts.Loader[".txt"] != api.LoaderText {
				continue // file/copy loaders: the JS output holds only a stub with the asset's path
			}
			if m.Kind == "css" && !strings.HasSuffix(p, ".css") {
				continue // a JS output holds only the JS stub of an imported CSS file
			}
			c := outBytes[p]
			if rec.Opts.LineLimit > 0 {
				c = strings.ReplaceAll(c, "\\\n", "") // the line limit splits string literals with backslash-newline
			}
			// inline source maps are base64, so markers inside them are not visible
			has := strings.Contains(c, marker)
			if m.Kind != "css" && has {
				// "M1@1" is a prefix of "M1@10": require a non-digit after the marker
				has = markerRe(marker).MatchString(c)
			}
			attributed := mo.Inputs[inKey(m.Path)].BytesInOutput > 0
			if has && !attributed {
				rc.Probe("marker_checked")
				return viol("marker-without-bytes", "", "output %s contains the marker %q of %s but the metafile attributes no bytes of it to that input (inputs of the output: %v)", p, marker, m.Path, mo.Inputs)
			}
			if attributed && !has && (rec.Opts.Sourcemap != api.SourceMapInline && rec.Opts.Sourcemap != api.SourceMapInlineAndExternal || true) {
				if shadowed(rec.Model, m) {
					continue
				}
				rc.Probe("marker_checked")
				debugDump(rec, p)
				return viol("bytes-without-marker", "", "metafile attributes %d bytes of output %s to %s but its marker %q does not occur there", mo.Inputs[inKey(m.Path)].BytesInOutput, p, m.Path, marker)
			}
			if has {
				rc.Probe("marker_present_and_attributed")
			}
		}
	}
	return nil
}

var markerReCache = map[string]*regexp.Regexp{}

func markerRe(marker string) *regexp.Regexp {
	if r, ok := markerReCache[marker]; ok {
		return r
	}
	r := regexp.MustCompile(regexp.QuoteMeta(marker) + `([^0-9]|$)`)
	markerReCache[marker] = r
	return r
}

// shadowed: an Extra file (x.ts in front of x.js) currently takes the module's place
// for extension-less imports, so the model's marker may legitimately be absent.
func shadowed(p *Project, m *Module) bool {
	i := strings.LastIndex(m.Path, ".")
	if i < 0 {
		return false
	}
	sp := m.Path[:i] + ".ts"
	_, ok := p.Extra[sp]
	return ok && !p.ExtraDel[sp]
}

func keysOf(m map[string]MetaOutput) []string {
	var ks []string
	for k := range m {
		ks = append(ks, k)
	}
	sort.Strings(ks)
	return ks
}

func keysOfIn(m map[string]MetaInput) []string {
	var ks []string
	for k := range m {
		ks = append(ks, k)
	}
	sort.Strings(ks)
	return ks
}

func keysOfS(m map[string]string) []string {
	var ks []string
	for k := range m {
		ks = append(ks, k)
	}
	sort.Strings(ks)
	return ks
}

// ---------- C17 ----------

type WriteState struct {
	Written map[string]bool // every path a build of this context has written so far
}

// CheckWrites checks the disk mutation log of one build against its reported outputs.
func CheckWrites(rc *RunCtx, rec *BuildRec, ws *WriteState, label string, canceled bool) *Violation {
	r := rec.Res
	viol := func(class, key, f string, a ...interface{}) *Violation {
		return &Violation{Class: "write-" + class, Key: key, Detail: fmt.Sprintf("%s build of step %d: ", label, rec.Step) + fmt.Sprintf(f, a...)}
	}
	// (files are looked up under their real path: the output directory may be reached
	// through a symbolic link)
	onDisk := func(m map[string]string, p string) (string, bool) {
		if v, ok := m[p]; ok {
			return v, true
		}
		if rec.Snap != nil {
			v, ok := m[rec.Snap.RealPath(p)]
			return v, ok
		}
		return "", false
	}
	outputs := map[string]string{}
	for _, f := range r.OutputFiles {
		if prev, dup := outputs[path.Clean(f.Path)]; dup && prev != string(f.Contents) {
			return viol("two-contents", "", "the build reports the output path %s twice with different contents (%d and %d bytes)", f.Path, len(prev), len(f.Contents))
		}
		outputs[path.Clean(f.Path)] = string(f.Contents)
	}
	// every reported output lies inside the output directory (none of the generated name
	// templates or entry points contains a parent-directory segment)
	if od := rec.Opts.Outdir; od != "" && !strings.Contains(rec.Opts.EntryNames+rec.Opts.ChunkNames+rec.Opts.AssetNames, "..") {
		abs := od
		if !strings.HasPrefix(od, "/") {
			abs = path.Join(rec.Model.Root, od)
		}
		for p := range outputs {
			if !strings.HasPrefix(p, abs+"/") {
				return viol("outside-outdir", "", "the build reports the output %s, which is not inside the output directory %s (no name template contains a parent-directory segment)", p, abs)
			}
		}
		if len(outputs) > 0 {
			rc.Probe("outputs_inside_outdir_checked")
		}
	}
	// inputs: everything loaded through the caches/bundler/resolver in this build, plus
	// (for builds served from the context's cache) the inputs the metafile names
	inputs := map[string]bool{}
	for _, op := range rec.Log {
		if moduleLoadRead(op) {
			inputs[op.Path] = true
		}
	}
	if mf, err := ParseMetafile(r.Metafile); err == nil && r.Metafile != "" {
		for k := range mf.Inputs {
			if !strings.HasPrefix(k, "<") && !strings.Contains(k, ":") {
				inputs[absOf(rec.Model.Root, k)] = true
			}
		}
	}
	hadOnEndError := false
	writePhaseError := false
	for _, e := range r.Errors {
		if strings.HasPrefix(e.PluginName, "verif-onend") {
			hadOnEndError = true
		}
		if strings.HasPrefix(e.Text, "Failed to write to output file") || strings.HasPrefix(e.Text, "Failed to create output directory") {
			writePhaseError = true
		}
	}
	failedBeforeWrite := len(r.Errors) > 0 && !hadOnEndError && !writePhaseError
	sums := map[string]uint64{}
	nWrites := 0
	for _, op := range rec.Log {
		switch op.Kind {
		case "writefile", "mkdir":
			if op.Kind == "writefile" {
				nWrites++
			}
			if !rec.Opts.Write {
				return viol("while-disabled", "", "Write is false but the build performed %s %s", op.Kind, op.Path)
			}
			if canceled && strings.Contains(errTexts(r), "The build was canceled") {
				return viol("while-canceled", "", "the build was cancelled but performed %s %s", op.Kind, op.Path)
			}
			if failedBeforeWrite {
				return viol("after-error", "", "the build reports errors raised before the write phase (%s) but performed %s %s", trunc(errTexts(r), 200), op.Kind, op.Path)
			}
			if op.Kind == "mkdir" {
				continue
			}
			want, isOut := outputs[op.Path]
			if !isOut && !hadOnEndError && !writePhaseError {
				return viol("unreported", "", "the build wrote %s which is not among its reported output files %v", op.Path, keysOfS(outputs))
			}
			if inputs[op.Path] && !rec.Opts.AllowOverwrite {
				return viol("clobbered-input", "", "the build wrote %s, which it also loaded as an input, without AllowOverwrite", op.Path)
			}
			if rec.Snap != nil && !rec.Opts.AllowOverwrite {
				// the same file under another name (a symbolic link on the way)
				if real := rec.Snap.RealPath(op.Path); real != op.Path && inputs[real] {
					return viol("clobbered-input", "via-symlink", "the build wrote %s, which is the input %s reached through a symbolic link, without AllowOverwrite", op.Path, real)
				}
			}
			if prev, ok := sums[op.Path]; ok && prev != op.Sum {
				return viol("two-contents", "", "the build wrote two different contents to %s", op.Path)
			}
			sums[op.Path] = op.Sum
			if isOut && op.Err == "" && op.Fault == "" {
				if got, _ := onDisk(rec.After, op.Path); got != want && sums[op.Path] == op.Sum && !laterWrite(rec.Log, op) {
					return viol("wrong-bytes", "", "%s on disk (%d bytes) differs from the reported output (%d bytes)", op.Path, len(got), len(want))
				}
			}
			if op.Fault != "" && !writePhaseError {
				return viol("fault-swallowed", "", "writing %s failed (%s) but the build reports no 'Failed to write' error: %v", op.Path, op.Err, errTexts(r))
			}
			ws.Written[op.Path] = true
		case "remove":
			if op.Err != "" && op.Fault == "" {
				// nothing was removed - but the attempt alone shows what the context believes it
				// wrote earlier: it must be a path that an earlier build at least tried to write
				if rec.Opts.Write && !ws.Written[op.Path] {
					return viol("tried-to-remove-foreign-path", "", "the build tried to remove %s (%s), a path that no earlier build of this context wrote or tried to write", op.Path, op.Err)
				}
				continue
			}
			if !rec.Opts.Write {
				return viol("remove-while-disabled", "", "Write is false but the build removed %s", op.Path)
			}
			if !ws.Written[op.Path] {
				return viol("removed-foreign-file", "", "the build removed %s, which no earlier build of this context wrote", op.Path)
			}
			if _, isOut := outputs[op.Path]; isOut {
				return viol("removed-own-output", "", "the build removed %s, which is one of its own outputs", op.Path)
			}
			// (A removed file that is also an input of this build can only be an earlier
			// output of this context that a glob entry point picked up again; the
			// statement's last sentence allows deleting it, so it is not flagged.)
			rc.Probe("stale_output_deleted")
		}
	}
	if rec.Opts.Write && buildOK(r) && !rec.Faulted {
		// every reported output is on disk with the reported bytes
		for p, want := range outputs {
			got, ok := onDisk(rec.After, p)
			if !ok {
				return viol("missing-on-disk", "", "reported output %s is not on disk after a successful build", p)
			}
			if got != want {
				return viol("wrong-bytes", "", "%s on disk (%d bytes) differs from the reported output (%d bytes)", p, len(got), len(want))
			}
		}
		if nWrites < len(outputs) {
			rc.Probe("unchanged_write_skipped")
		}
		rc.Probe("write_build_checked")
	}
	// every output a writing build reports counts as claimed by the context from now on, also
	// when creating its directory failed and the write was never attempted
	if rec.Opts.Write {
		for p := range outputs {
			ws.Written[p] = true
		}
	}
	// nothing else in the tree changed: any file that differs between Before and After
	// must be a write or remove target seen above
	touched := map[string]bool{}
	for _, op := range rec.Log {
		if op.Kind == "writefile" || op.Kind == "remove" {
			touched[op.Path] = true
			if rec.Snap != nil {
				touched[rec.Snap.RealPath(op.Path)] = true
			}
		}
	}
	for p, b := range rec.Before {
		if a, ok := rec.After[p]; (!ok || a != b) && !touched[p] {
			return viol("unlogged-change", "", "file %s changed during the build without a logged write/remove", p)
		}
	}
	return nil
}

func laterWrite(log []verifsim.Op, op verifsim.Op) bool {
	for _, o := range log {
		if o.Seq > op.Seq && o.Path == op.Path && (o.Kind == "writefile" || o.Kind == "remove") {
			return true
		}
	}
	return false
}

// ---------- C18 ----------

var (
	reJSFrom    = regexp.MustCompile(`(?:from|import)\s*["']([^"'\n]+)["']`)
	rePkgSpec   = regexp.MustCompile(`^(pkg[0-9]+|react(/.*)?)$`)
	reJSCall    = regexp.MustCompile(`(?:import|require)\(\s*["']([^"'\n]+)["']\s*\)`)
	reCSSURL    = regexp.MustCompile(`url\(\s*["']?([^"')\s]+)["']?\s*\)`)
	reCSSImport = regexp.MustCompile(`@import\s+["']([^"'\n]+)["']`)
	reSrcMap    = regexp.MustCompile(`[#@] sourceMappingURL=([^\s*]+)`)
	reLegal     = regexp.MustCompile(`For license information please see (\S+)`)
	reHashTok   = regexp.MustCompile(`[A-Z2-7]{8}`)
	reAssetStr  = regexp.MustCompile(`["']((?:\./|\.\./|/|https://cdn\.example\.com/)[^"'\n]*[A-Z2-7]{8}[^"'\n]*)["']`)
)

// CheckRefs: every reference written into an output names a file of the same build.
func CheckRefs(rc *RunCtx, rec *BuildRec, o *OptModel, label string) *Violation {
	r := rec.Res
	if !buildOK(r) || len(r.OutputFiles) == 0 {
		return nil
	}
	viol := func(class, f string, a ...interface{}) *Violation {
		return &Violation{Class: "reference-" + class, Key: class, Detail: fmt.Sprintf("%s build of step %d: ", label, rec.Step) + fmt.Sprintf(f, a...)}
	}
	emitted := map[string]bool{}
	outdir := absOf(rec.Model.Root, rec.Opts.Outdir)
	for _, f := range r.OutputFiles {
		emitted[path.Clean(f.Path)] = true
	}
	public := rec.Opts.PublicPath
	resolve := func(from, ref string) (string, bool) {
		// returns the absolute path the reference denotes, or ok=false when it is not a
		// reference into the build's own outputs (bare package names, data URLs, ...)
		if strings.HasPrefix(ref, "data:") || strings.HasPrefix(ref, "http://") || ref == "" {
			return "", false
		}
		if public != "" && strings.HasPrefix(ref, public) {
			rest := strings.TrimPrefix(ref, public)
			rest = strings.TrimPrefix(rest, "/")
			return path.Clean(outdir + "/" + rest), true
		}
		if strings.HasPrefix(ref, "./") || strings.HasPrefix(ref, "../") {
			return path.Clean(path.Dir(from) + "/" + ref), true
		}
		return "", false
	}
	for _, f := range r.OutputFiles {
		from := path.Clean(f.Path)
		c := string(f.Contents)
		if rec.Opts.LineLimit > 0 {
			c = strings.ReplaceAll(c, "\\\n", "")
		}
		isCSS := strings.HasSuffix(from, ".css")
		isJS := strings.HasSuffix(from, ".js") || strings.HasSuffix(from, ".mjs")
		if !isCSS && !isJS {
			continue
		}
		var refs [][2]string
		add := func(kind string, re *regexp.Regexp) {
			for _, m := range re.FindAllStringSubmatch(c, -1) {
				refs = append(refs, [2]string{kind, m[1]})
			}
		}
		if isJS && rec.Opts.Bundle {
			add("import", reJSFrom)
			add("import()", reJSCall)
			add("asset-string", reAssetStr)
		}
		if isCSS && rec.Opts.Bundle {
			add("url()", reCSSURL)
			add("@import", reCSSImport)
		}
		add("sourceMappingURL", reSrcMap)
		add("legal-comments-link", reLegal)
		for _, kr := range refs {
			kind, ref := kr[0], kr[1]
			if kind == "sourceMappingURL" && (strings.Contains(c, "sourceMappingURL=data:") && strings.HasPrefix(ref, "data:")) {
				continue
			}
			if kind == "sourceMappingURL" || kind == "legal-comments-link" {
				// these links are written relative to the file (or with the public path)
				if !strings.HasPrefix(ref, "./") && !strings.HasPrefix(ref, "../") && !strings.HasPrefix(ref, "/") && !strings.Contains(ref, "://") && !strings.HasPrefix(ref, "data:") {
					ref = "./" + ref
				}
			}
			target, ok := resolve(from, ref)
			if !ok {
				continue
			}
			// references to source files (not bundled, external) keep their input path:
			// only judge references that point into the output directory or carry a hash
			if !emitted[target] {
				if kind == "sourceMappingURL" || kind == "legal-comments-link" || reHashTok.MatchString(path.Base(target)) || (strings.HasPrefix(target, outdir+"/") && kind != "asset-string") {
					if _, isSource := rec.Before[target]; isSource && !strings.HasPrefix(target, outdir+"/") {
						continue
					}
					if _, isSource := rec.Before[target]; isSource && kind != "sourceMappingURL" && kind != "legal-comments-link" {
						continue // a reference to an existing file that is not an output (external / unbundled)
					}
					return viol("dangling", "%s in %s references %q (= %s) which this build did not emit; emitted: %v", kind, from, kr[1], target, keysOfB(emitted))
				}
				continue
			}
			rc.Probe("reference_resolved_" + kind)
		}
	}
	return nil
}

func keysOfB(m map[string]bool) []string {
	var ks []string
	for k := range m {
		ks = append(ks, k)
	}
	sort.Strings(ks)
	return ks
}

var reLayersOnlyLine = regexp.MustCompile(`^\s*(@layer [^{};]+;|@layer [^{};]*\{|@media [^{};]*\{|@supports [^{};]*\{|\})$`)
var reLinkerTail = regexp.MustCompile(`^(var export_\w+ = .*;|[\w$]+\(\);)$`)

func checkSegments(rc *RunCtx, rec *BuildRec, mf *Metafile, metaOut map[string]MetaOutput, outBytes map[string]string, viol func(class, key, f string, a ...interface{}) *Violation) *Violation {
	if !rec.Opts.Bundle || rec.Opts.MinifyWhitespace {
		return nil
	}
	for p, mo := range metaOut {
		isJS := strings.HasSuffix(p, ".js") || strings.HasSuffix(p, ".mjs")
		isCSS := strings.HasSuffix(p, ".css")
		if !isJS && !isCSS {
			continue
		}
		c := outBytes[p]
		if strings.Contains(c, " with { ") {
			continue // one file bundled as several modules (import attributes): their entries were folded
		}
		type hit struct {
			key        string
			start, end int // start of the comment line, end = index after its newline
		}
		var hits []hit
		for k := range mo.Inputs {
			shown := k // path comments in the code are always relative to the working directory
			if strings.HasPrefix(k, "/") {
				shown = stripRoot(k, rec.Model.Root)
			}
			line := "// " + shown + "\n"
			if isCSS {
				line = "/* " + shown + " */\n"
			}
			from := 0
			for {
				i := strings.Index(c[from:], line)
				if i < 0 {
					break
				}
				i += from
				if i == 0 || c[i-1] == '\n' {
					hits = append(hits, hit{k, i, i + len(line)})
				}
				from = i + len(line)
			}
		}
		sort.Slice(hits, func(i, j int) bool { return hits[i].start < hits[j].start })
		seen := map[string]int{}
		for _, h := range hits {
			seen[h.key]++
		}
		// the last module of an ES module output is followed by the export clause
		lastEnd := -1
		if isJS && rec.Opts.Format == api.FormatESModule && len(hits) > 0 {
			if i := strings.LastIndex(c, "\nexport {\n"); i >= hits[len(hits)-1].end {
				lastEnd = i + 1
			}
		}
		for i := 0; i < len(hits); i++ {
			h := hits[i]
			if seen[h.key] != 1 {
				continue // ambiguous
			}
			var next hit
			if i+1 < len(hits) {
				next = hits[i+1]
			} else if lastEnd >= 0 {
				// lastEnd is the index just after the newline that precedes "export {": either
				// the newline that ends the module's last line or that of a blank separator line
				next = hit{start: lastEnd}
				if lastEnd-2 < h.end || c[lastEnd-2] != '\n' {
					next.start = lastEnd + 1 // no blank line: compensate the strip below
				}
				rc.Probe("last_segment_checked")
			} else {
				continue
			}
			segEnd := next.start
			if segEnd > h.end && (c[segEnd-1] == '\n' || (i+1 == len(hits) && segEnd == lastEnd+1)) {
				segEnd-- // the blank line that separates modules
			}
			seg := segEnd - h.end
			got := mo.Inputs[h.key].BytesInOutput
			rc.Probe("segment_checked")
			if seg > got && isCSS && got >= 0 && (got == 0 || c[h.end+got-1] == '\n') {
				// layers-only entries (a sheet that is imported again later keeps only its
				// @layer statement at the earlier position; adjacent ones are merged; import
				// conditions wrap them in @layer/@media/@supports blocks) are printed without a
				// path comment: such lines after the input's own bytes belong to other inputs
				only := true
				for _, line := range strings.Split(strings.TrimSuffix(c[h.end+got:segEnd], "\n"), "\n") {
					if !reLayersOnlyLine.MatchString(line) {
						only = false
						break
					}
				}
				if only {
					seg = got
					rc.Probe("css_segment_layers_only_entries_skipped")
				}
			}
			if seg != got && i+1 == len(hits) {
				// after the last module of an entry point the linker may emit statements of its
				// own (a call of the module's lazy initialiser, re-export temporaries) before the
				// export clause; they belong to no input
				end := segEnd
				for end > h.end {
					ls := strings.LastIndex(c[h.end:end-1], "\n") + 1 + h.end
					if !reLinkerTail.MatchString(c[ls : end-1]) {
						break
					}
					end = ls
					if end-h.end == got {
						seg = got
						rc.Probe("last_segment_linker_statements_stripped")
						break
					}
				}
			}
			if seg != got {
				if debugOn {
					if i+1 == len(hits) {
						fmt.Printf("LASTSEG delta=%d key=%s tail=%q\n", seg-got, h.key, c[h.end:])
					}
					rc.Probe(fmt.Sprintf("segment_delta_%d", seg-got))
					continue
				}
				return viol("bytes-in-output-inexact", "", "output %s: the code of %s between its path comment and the next module's comment is %d bytes, the metafile attributes %d bytes to it; segment: %q", p, h.key, seg, got, trunc(c[h.end:segEnd], 300))
			}
		}
	}
	return nil
}
