package harness

// The edit model: operations on the project model, applied to the simulated disk.

import (
	"fmt"
	"strings"

	"github.com/evanw/esbuild/pkg/verifsim"
)

const (
	EdSameLen = iota // change one digit: same file size
	EdVersion        // bump the marker version
	EdTouch          // modification time only
	EdAddImport
	EdDropImport
	EdNewModule
	EdDelete // delete a module (importers break) or restore a deleted one
	EdRename
	EdShadow     // x.ts appears in front of x.js (or disappears again)
	EdNearerPkg  // src/node_modules/<pkg> appears in front of node_modules/<pkg>
	EdFileToDir  // m.js becomes m/index.js (or back)
	EdPkgJSON    // flip type / sideEffects / entry fields of a package or of the root
	EdTSConfig   // edit, create, delete or break tsconfig.json
	EdBreak      // introduce or repair a syntax error
	EdFeature    // change the body of a module (features)
	EdStyleFlip  // change how an import is written (named/star/require/dynamic ...)
	EdComment    // comment-only edit: the emitted code stays the same, the source map does not
	EdReorder    // swap two imports of a module (for import() lists: only which chunk is referenced where changes)
	NumEdits
)

var editNames = []string{"same-length", "version", "touch", "add-import", "drop-import", "new-module", "delete/restore", "rename", "shadow", "nearer-node_modules", "file<->dir", "package.json", "tsconfig", "break/repair", "feature", "import-style", "comment-only", "reorder-imports"}

// ApplyEdit mutates the model and the disk; it returns a description.
func ApplyEdit(g G, p *Project, d *verifsim.Disk, inPlace bool) string {
	// Damage (syntax errors, deleted modules) is repaired with priority so that
	// most rebuilds of a history succeed.
	var damaged []*Module
	for _, m := range p.Mods {
		if m.Broken || m.Deleted {
			damaged = append(damaged, m)
		}
	}
	if (len(damaged) > 0 || (p.TS != nil && p.TS.Broken)) && g.n(2) == 0 {
		if p.TS != nil && p.TS.Broken {
			p.TS.Broken = false
			p.WriteTo(d, inPlace)
			return "repair tsconfig.json"
		}
		m := damaged[g.n(len(damaged))]
		m.Broken, m.Deleted = false, false
		p.WriteTo(d, inPlace)
		return "repair/restore " + m.Path
	}
	kind := g.n(NumEdits)
	live := func(js bool) *Module {
		for tries := 0; tries < 8; tries++ {
			m := p.Mods[g.n(len(p.Mods))]
			if !m.Deleted && (!js || isJS(m.Kind)) {
				return m
			}
		}
		return p.Mods[0]
	}
	desc := editNames[kind]
	switch kind {
	case EdSameLen:
		m := live(false)
		m.Salt = (m.Salt + 1 + g.n(8)) % 10
		desc += " " + m.Path
	case EdVersion:
		m := live(false)
		m.Version++
		desc += " " + m.Path
	case EdTouch:
		m := live(false)
		d.Touch(p.Root + "/" + m.Path)
		return desc + " " + m.Path
	case EdAddImport:
		m := live(true)
		t := g.n(len(p.Mods))
		if t == m.ID {
			return desc + " (none)"
		}
		for _, im := range m.Imports {
			if im.Target == t {
				return desc + " (dup)"
			}
		}
		imp := Import{Target: t}
		if isJS(p.Mods[t].Kind) {
			imp.Style = styleWeights[g.n(len(styleWeights))]
			if m.Kind == "cjs" && !isDynamic(imp.Style) {
				imp.Style = ImpRequire
			}
			if imp.Style == ImpReexportStar && p.Mods[t].Kind == "cjs" {
				imp.Style = ImpNamed
			}
		} else {
			imp.Style = ImpDefault
			if p.Mods[t].Kind == "json" {
				imp.Style = []int{ImpDefault, ImpNamed, ImpStar, ImpDefault}[g.n(4)]
				imp.Attr = imp.Style == ImpDefault && g.n(3) == 0
			}
			if p.Mods[t].Kind == "css" {
				imp.Style = ImpSideEffect
			}
			if m.Kind == "cjs" {
				imp.Style = ImpRequire
			}
		}
		m.Imports = append(m.Imports, imp)
		desc += fmt.Sprintf(" %s -> %s", m.Path, p.Mods[t].Path)
	case EdDropImport:
		m := live(true)
		if len(m.Imports) == 0 {
			return desc + " (none)"
		}
		i := g.n(len(m.Imports))
		m.Imports = append(m.Imports[:i:i], m.Imports[i+1:]...)
		desc += " " + m.Path
	case EdNewModule:
		id := len(p.Mods)
		k := []string{"js", "ts", "css", "json", "jsx"}[g.n(5)]
		nm := &Module{ID: id, Kind: k, Version: 1, Path: fmt.Sprintf("src/n%d.%s", id, k), Feat: g.n(1 << 10)}
		p.Mods = append(p.Mods, nm)
		m := live(true)
		st := ImpNamed
		if k == "css" {
			st = ImpSideEffect
		} else if k == "json" {
			st = ImpDefault
		}
		if m.Kind == "cjs" {
			st = ImpRequire
		}
		m.Imports = append(m.Imports, Import{Target: id, Style: st})
		desc += fmt.Sprintf(" %s imported by %s", nm.Path, m.Path)
	case EdDelete:
		m := p.Mods[g.n(len(p.Mods))]
		if m.Deleted {
			m.Deleted = false
			desc = "restore " + m.Path
		} else if m.ID != 0 {
			m.Deleted = true
			d.RemoveAll(p.Root + "/" + m.Path)
			// a directory that becomes empty disappears too, so that a later restore
			// makes a directory appear that an earlier build looked for and did not find
			d.PruneEmptyDirs(p.Root+"/"+m.Path, p.Root+"/src")
			desc = "delete " + m.Path
		}
	case EdRename:
		m := live(false)
		if m.ID == 0 || entryOf(p, m.ID) {
			return desc + " (entry, skipped)"
		}
		old := m.Path
		dir, base := dirOf(old), old[strings.LastIndex(old, "/")+1:]
		if strings.HasPrefix(base, "r_") {
			base = base[2:]
		} else {
			base = "r_" + base
		}
		m.Path = dir + "/" + base
		d.RemoveAll(p.Root + "/" + old)
		desc += " " + old + " -> " + m.Path
	case EdShadow:
		if p.TS != nil && p.TS.Fallback && g.n(2) == 0 {
			// a file appears in (or disappears from) the first "paths" candidate directory,
			// which may not exist yet
			var cands []*Module
			for _, m := range p.Mods {
				if isJS(m.Kind) && !m.Deleted && strings.HasPrefix(m.Path, "src/") {
					cands = append(cands, m)
				}
			}
			if len(cands) == 0 {
				return desc + " (none)"
			}
			m := cands[g.n(len(cands))]
			op := "override/" + strings.TrimPrefix(m.Path, "src/")
			if _, ok := p.Extra[op]; ok && !p.ExtraDel[op] {
				p.ExtraDel[op] = true
				d.RemoveAll(p.Root + "/" + op)
				d.PruneEmptyDirs(p.Root+"/"+op, p.Root)
				desc = "override removed " + op
			} else {
				v, f := expNames(m)
				if m.Kind == "cjs" {
					p.Extra[op] = fmt.Sprintf("console.log(\"OVERRIDE%d\");\nexports.%s = ['override'];\nexports.%s = function(o) { return o };\nexports.default = 0;\n", m.ID, v, f)
				} else {
					p.Extra[op] = fmt.Sprintf("console.log(\"OVERRIDE%d\");\nexport const %s = ['override'];\nexport function %s(o) { return o }\nexport default 0;\n", m.ID, v, f)
				}
				delete(p.ExtraDel, op)
				desc = "override added " + op
			}
			break
		}
		var cands []*Module
		for _, m := range p.Mods {
			if (m.Kind == "js" || m.Kind == "jsx") && !m.Deleted {
				cands = append(cands, m)
			}
		}
		if len(cands) == 0 {
			return desc + " (none)"
		}
		m := cands[g.n(len(cands))]
		sp := m.Path[:strings.LastIndex(m.Path, ".")] + ".ts"
		if _, ok := p.Extra[sp]; ok && !p.ExtraDel[sp] {
			p.ExtraDel[sp] = true
			d.RemoveAll(p.Root + "/" + sp)
			desc += " removed " + sp
		} else {
			v, f := expNames(m)
			p.Extra[sp] = fmt.Sprintf("console.log(\"SHADOW%d\");\nexport const %s: any = ['shadow'];\nexport function %s(o: any) { return o }\nexport default 0;\n", m.ID, v, f)
			delete(p.ExtraDel, sp)
			desc += " added " + sp
		}
	case EdNearerPkg:
		if len(p.Pkgs) == 0 {
			return desc + " (none)"
		}
		base := p.Pkgs[g.n(len(p.Pkgs))]
		dir := "src/node_modules/" + base.Name
		for _, pk := range p.Pkgs {
			if pk.Dir == dir {
				pk.Deleted = !pk.Deleted
				if pk.Deleted {
					d.RemoveAll(p.Root + "/" + dir)
				}
				return desc + fmt.Sprintf(" toggled %s deleted=%v", dir, pk.Deleted)
			}
		}
		npk := *base
		npk.Dir = dir
		npk.Linked = false
		npk.Version = base.Version + 100
		npk.Deleted = false
		p.Pkgs = append(p.Pkgs, &npk)
		desc += " added " + dir
	case EdFileToDir:
		var cands []*Module
		for _, m := range p.Mods {
			if (m.Kind == "js" || m.Kind == "ts") && !m.Deleted && !entryOf(p, m.ID) {
				cands = append(cands, m)
			}
		}
		if len(cands) == 0 {
			return desc + " (none)"
		}
		m := cands[g.n(len(cands))]
		old := m.Path
		if strings.HasSuffix(old, "/index."+m.Kind) {
			m.Path = strings.TrimSuffix(old, "/index."+m.Kind) + "." + m.Kind
			d.RemoveAll(p.Root + "/" + dirOf(old))
		} else {
			m.Path = old[:strings.LastIndex(old, ".")] + "/index." + m.Kind
			d.RemoveAll(p.Root + "/" + old)
		}
		desc += " " + old + " -> " + m.Path
	case EdPkgJSON:
		if len(p.Pkgs) > 0 && g.n(2) == 0 {
			pk := p.Pkgs[g.n(len(p.Pkgs))]
			switch g.n(5) {
			case 4:
				// a linked package is pointed at another directory (the old one stays)
				if pk.Linked {
					pk.LinkVer++
				} else {
					pk.Version++
				}
			case 0:
				pk.Type = []string{"", "module", "commonjs"}[g.n(3)]
			case 1:
				pk.SideEffects = g.n(3)
			case 2:
				pk.Entry = g.n(3)
			case 3:
				pk.Version++
			}
			desc += " " + pk.Dir
		} else {
			switch g.n(5) {
			case 4:
				// a field behind "type" changes: the line text changes, the position of "type" does not
				p.HasRootPJ = true
				p.PJVer++
			case 0:
				p.HasRootPJ = !p.HasRootPJ
				if !p.HasRootPJ {
					d.RemoveAll(p.Root + "/package.json")
				}
			case 3:
				// layout only: "type" keeps its value but moves to another line / column
				p.HasRootPJ = true
				p.PJPad = (p.PJPad + 1 + g.n(2)) % 5
			default:
				p.HasRootPJ = true
				p.PkgType = []string{"", "module", "commonjs"}[g.n(3)]
			}
			desc += fmt.Sprintf(" root present=%v type=%q pad=%d ver=%d", p.HasRootPJ, p.PkgType, p.PJPad, p.PJVer)
		}
	case EdTSConfig:
		switch {
		case p.TS == nil:
			p.TS = &TSConfig{JSX: g.n(4), Paths: true, UseDefine: g.n(3), Version: 1}
			desc += " created"
		case g.n(6) == 0 && !anyAlias(p):
			p.TS = nil
			d.RemoveAll(p.Root + "/tsconfig.json")
			desc += " deleted"
		default:
			switch g.n(9) {
			case 6:
				// "extends" a base file that may not exist (yet)
				p.TS.Extends = !p.TS.Extends
				if !p.TS.Extends && p.TS.BasePresent {
					p.TS.BasePresent = false
					d.RemoveAll(p.Root + "/tsconfig.base.json")
				}
			case 7, 8:
				// the base file appears, changes or vanishes while the derived file stays as it is
				p.TS.Extends = true
				if p.TS.BasePresent && g.n(2) == 0 {
					p.TS.BasePresent = false
					d.RemoveAll(p.Root + "/tsconfig.base.json")
				} else {
					if !p.TS.BasePresent {
						desc += " (base config file appears)"
					}
					p.TS.BasePresent = true
					p.TS.BaseJSX++
				}
			case 0:
				p.TS.JSX = g.n(4)
			case 1:
				p.TS.UseDefine = g.n(3)
			case 2:
				p.TS.AlwaysStrict = g.n(3)
			case 3:
				p.TS.Target = g.n(3)
			case 4:
				p.TS.Broken = !p.TS.Broken
			case 5:
				p.TS.Version++
			}
			desc += fmt.Sprintf(" %+v", *p.TS)
		}
	case EdBreak:
		m := live(false)
		if m.Kind == "json" || m.Kind == "txt" || m.Kind == "bin" {
			m.Version++
		} else {
			m.Broken = !m.Broken
		}
		desc += fmt.Sprintf(" %s broken=%v", m.Path, m.Broken)
	case EdFeature:
		m := live(true)
		m.Feat ^= 1 << uint(g.n(11))
		desc += fmt.Sprintf(" %s feat=%x", m.Path, m.Feat)
	case EdComment:
		m := live(true)
		m.Note++
		desc += fmt.Sprintf(" %s note=%d", m.Path, m.Note)
	case EdReorder:
		m := live(true)
		// prefer two import() list members; otherwise any two neighbours
		var list []int
		for i, im := range m.Imports {
			if im.Style == ImpDynamicList {
				list = append(list, i)
			}
		}
		switch {
		case len(list) >= 2:
			a := g.n(len(list) - 1)
			i, j := list[a], list[a+1]
			m.Imports[i], m.Imports[j] = m.Imports[j], m.Imports[i]
			desc += fmt.Sprintf(" %s import() list members %d,%d", m.Path, i, j)
		case len(m.Imports) >= 2:
			i := g.n(len(m.Imports) - 1)
			m.Imports[i], m.Imports[i+1] = m.Imports[i+1], m.Imports[i]
			desc += fmt.Sprintf(" %s imports %d,%d", m.Path, i, i+1)
		default:
			return desc + " (none)"
		}
	case EdStyleFlip:
		m := live(true)
		if len(m.Imports) == 0 {
			return desc + " (none)"
		}
		im := &m.Imports[g.n(len(m.Imports))]
		if im.Target >= 0 && isJS(p.Mods[im.Target].Kind) && m.Kind != "cjs" {
			im.Style = styleWeights[g.n(len(styleWeights))]
			if im.Style == ImpReexportStar && p.Mods[im.Target].Kind == "cjs" {
				im.Style = ImpNamed
			}
		}
		if im.Target >= 0 && p.Mods[im.Target].Kind == "json" && m.Kind != "cjs" {
			im.Style = []int{ImpDefault, ImpNamed, ImpStar, ImpDefault}[g.n(4)]
			im.Attr = im.Style == ImpDefault && g.n(2) == 0 // with { type: "json" }: another module identity for the same file
		}
		im.Spec = []string{"", "ext", "alias"}[g.n(3)]
		desc += fmt.Sprintf(" %s import of %d -> style %d spec %q", m.Path, im.Target, im.Style, im.Spec)
	}
	p.WriteTo(d, inPlace)
	return desc
}

func entryOf(p *Project, id int) bool {
	for _, e := range p.Entries {
		if e == id {
			return true
		}
	}
	return false
}

func anyAlias(p *Project) bool {
	for _, m := range p.Mods {
		for _, im := range m.Imports {
			if im.Spec == "alias" {
				return true
			}
		}
	}
	return false
}
