package harness

// Seeded project generator and edit model (DESIGN.md §2.5). A project is a small model
// (modules, assets, packages, configs) that is rendered to the simulated disk; the
// model is kept so that oracles know which marker each file carries. Every choice is
// `g.n(k)`, a bounded draw from the run's tape, and 0 is always the simplest choice.

import (
	"encoding/base64"
	"fmt"
	"sort"
	"strings"

	"github.com/evanw/esbuild/pkg/verifsim"
)

type G struct{ T *verifsim.Tape }

func (g G) n(k int) int         { return g.T.Next(k) }
func (g G) chance(pct int) bool { return g.T.Next(100) >= 100-pct } // 0 => false
func (g G) pick(xs []string) string {
	return xs[g.T.Next(len(xs))]
}

type Import struct {
	Target int    // module index, or -1 for a package import
	Pkg    string // package specifier when Target < 0
	Style  int
	Spec   string // how the specifier is written: "", "ext", "alias"
	Attr   bool   // JSON only: written as `import x from "./a.json" with { type: "json" }`
}

const (
	ImpNamed = iota
	ImpDefault
	ImpStar
	ImpDynamic
	ImpRequire
	ImpSideEffect
	ImpReexportStar
	ImpReexportNamed
	ImpUnused      // imported but never referenced (tree shaking / sideEffects)
	ImpDynamicList // import() inside one array literal shared by all such imports of the module:
	// reordering two of them changes nothing but which chunk is referenced where
	NumImpStyles
)

const (
	FeatEnum = 1 << iota
	FeatClass
	FeatCollide
	FeatLegal
	FeatJSXElem
	FeatMangle
	FeatTypes
	FeatSourceMapComment
	FeatTopLevelThis
	FeatWarn // code that draws a warning
	FeatGlobals
)

type Module struct {
	ID      int
	Path    string // relative to the project root
	Kind    string // js mjs cjs ts tsx jsx css json txt bin
	Version int
	Imports []Import
	Feat    int
	Broken  bool
	Deleted bool
	Salt    int // varies the body without changing its length class
	Note    int // a plain comment at the top (comment-only edits: output unchanged, source map changes)
}

type Pkg struct {
	Name        string
	Dir         string // relative to root, e.g. node_modules/pkg0 or src/node_modules/pkg0
	Type        string // "", "module", "commonjs"
	SideEffects int    // 0 absent, 1 false, 2 true
	Entry       int    // 0 main, 1 module+main, 2 exports map
	Version     int
	Deleted     bool
	PeerMissing bool // the "module" build of the package imports a peer that is not installed
	Linked      bool // node_modules/<name> is a symbolic link to ../packages/<name>-v<LinkVer> (a linked workspace package)
	LinkVer     int
}

type Project struct {
	Root      string
	Mods      []*Module
	Pkgs      []*Pkg
	Entries   []int
	PkgType   string // root package.json "type"
	HasRootPJ bool
	PJPad     int  // layout of the root package.json: fields and lines in front of "type"
	PJVer     int  // a field behind "type" on the same line (changes the line text, not the position of "type")
	Legacy    bool // src/legacy.js (plain CommonJS text without import/export) is imported by module 0:
	// inside a "type": "module" package its diagnostics carry notes that point into package.json
	TS           *TSConfig
	Twin         int               // index of a module that shares its base name with another one (0 = none)
	Extra        map[string]string // additional raw files (relative path -> content)
	ExtraDel     map[string]bool
	ExtraEntries []string // raw files (keys of Extra) that are entry points too
	LocalCSS  map[int]bool // modules that import "./button.module.css" (local-css) next to them: the same
	// file and class names in several directories
}

type TSConfig struct {
	JSX          int // 0 absent,1 react,2 react-jsx,3 preserve
	Paths        bool
	UseDefine    int // 0 absent 1 true 2 false
	AlwaysStrict int
	Target       int
	Version      int
	Broken       bool
	Fallback     bool // "paths" lists an override directory (which may not exist) before src
	Extends      bool // "extends": "./tsconfig.base.json"
	BasePresent  bool // ... which may not exist (yet)
	BaseJSX      int  // the base sets jsx (the derived file then does not)
}

// import styles, weighted: dynamic imports and named imports are the interesting ones
// (code splitting, cross-chunk imports), index 0 is the simplest
var styleWeights = []int{ImpNamed, ImpDynamic, ImpNamed, ImpDynamic, ImpDefault, ImpStar, ImpDynamic, ImpRequire, ImpSideEffect, ImpReexportStar, ImpReexportNamed, ImpUnused, ImpNamed, ImpDynamicList, ImpDynamicList}

func isDynamic(style int) bool { return style == ImpDynamic || style == ImpDynamicList }

func (m *Module) marker() string { return fmt.Sprintf("M%d@%d", m.ID, m.Version) }

func isJS(kind string) bool {
	switch kind {
	case "js", "mjs", "cjs", "ts", "tsx", "jsx":
		return true
	}
	return false
}

// GenProject draws a project. size 0 = tiny.
func GenProject(g G, root string) *Project {
	p := &Project{Root: root, Extra: map[string]string{}, ExtraDel: map[string]bool{}}
	nJS := 2 + g.n(10)
	if g.chance(15) {
		nJS += 8 + g.n(10)
	}
	kinds := []string{"js", "ts", "js", "jsx", "tsx", "mjs", "cjs", "ts"}
	dirs := []string{"src", "src", "src/lib", "src/lib/deep", "src/util"}
	for i := 0; i < nJS; i++ {
		k := kinds[g.n(len(kinds))]
		dir := dirs[g.n(len(dirs))]
		if i == 0 {
			dir = "src"
		}
		m := &Module{ID: i, Kind: k, Version: 1, Path: fmt.Sprintf("%s/m%d.%s", dir, i, k)}
		// features
		for bit := 0; bit < 11; bit++ {
			if g.chance(25) {
				m.Feat |= 1 << bit
			}
		}
		p.Mods = append(p.Mods, m)
	}
	// assets
	nAssets := g.n(5)
	assetKinds := []string{"json", "css", "txt", "css", "bin", "json"}
	for i := 0; i < nAssets; i++ {
		k := assetKinds[g.n(len(assetKinds))]
		id := len(p.Mods)
		ext := k
		if k == "bin" {
			ext = "png"
		}
		m := &Module{ID: id, Kind: k, Version: 1, Path: fmt.Sprintf("src/assets/a%d.%s", id, ext)}
		if k == "css" {
			for _, bit := range []int{FeatEnum, FeatLegal, FeatWarn} {
				if g.chance(25) {
					m.Feat |= bit
				}
			}
		}
		p.Mods = append(p.Mods, m)
	}
	// twins: same base name in another directory (output names collide under "[name]" templates)
	if g.chance(20) {
		src := p.Mods[g.n(len(p.Mods))]
		base := src.Path[strings.LastIndex(src.Path, "/")+1:]
		id := len(p.Mods)
		tw := &Module{ID: id, Kind: src.Kind, Version: 1, Path: "src/twin/" + base, Feat: src.Feat &^ (FeatWarn)}
		p.Mods = append(p.Mods, tw)
		p.Twin = id
	}
	// packages
	nPk := g.n(4)
	for i := 0; i < nPk; i++ {
		pk := &Pkg{Name: fmt.Sprintf("pkg%d", i), Dir: fmt.Sprintf("node_modules/pkg%d", i), Version: 1}
		pk.Type = []string{"", "module", "commonjs"}[g.n(3)]
		pk.SideEffects = g.n(3)
		pk.Entry = g.n(3)
		pk.PeerMissing = pk.Entry == 1 && g.n(6) == 0
		pk.Linked = g.n(4) == 0
		p.Pkgs = append(p.Pkgs, pk)
	}
	// import edges: module i imports from modules with larger index mostly (DAG), with
	// occasional back edges (cycles)
	for i, m := range p.Mods {
		if !isJS(m.Kind) {
			if m.Kind == "css" {
				// css may import another css or reference a binary asset
				for j, o := range p.Mods {
					if j != i && (o.Kind == "css" && j > i || o.Kind == "bin") && g.chance(50) {
						m.Imports = append(m.Imports, Import{Target: j})
					}
				}
			}
			continue
		}
		nImp := g.n(4)
		if i == 0 {
			nImp++
		}
		for e := 0; e < nImp; e++ {
			var t int
			if g.chance(12) && i > 0 {
				t = g.n(i) // back edge
			} else if len(p.Mods)-i-1 > 0 {
				t = i + 1 + g.n(len(p.Mods)-i-1)
			} else {
				continue
			}
			if t == i {
				continue
			}
			dup := false
			for _, im := range m.Imports {
				if im.Target == t {
					dup = true
				}
			}
			if dup {
				continue
			}
			imp := Import{Target: t}
			tm := p.Mods[t]
			if isJS(tm.Kind) {
				imp.Style = styleWeights[g.n(len(styleWeights))]
				if m.Kind == "cjs" && imp.Style != ImpDynamic {
					imp.Style = ImpRequire
				}
				if imp.Style == ImpReexportStar && (tm.Kind == "cjs") {
					imp.Style = ImpNamed
				}
			} else {
				imp.Style = ImpDefault
				if tm.Kind == "json" {
					imp.Style = []int{ImpDefault, ImpNamed, ImpStar, ImpDefault}[g.n(4)]
					imp.Attr = imp.Style == ImpDefault && g.n(3) == 0
				}
				if tm.Kind == "css" {
					imp.Style = ImpSideEffect
				}
				if m.Kind == "cjs" {
					imp.Style = ImpRequire
				}
			}
			imp.Spec = []string{"", "ext", "alias"}[g.n(3)]
			m.Imports = append(m.Imports, imp)
		}
		if len(p.Pkgs) > 0 && g.chance(30) {
			pk := p.Pkgs[g.n(len(p.Pkgs))]
			st := []int{ImpNamed, ImpSideEffect, ImpUnused, ImpStar, ImpDynamic}[g.n(5)]
			if m.Kind == "cjs" && st != ImpDynamic {
				st = ImpRequire
			}
			m.Imports = append(m.Imports, Import{Target: -1, Pkg: pk.Name, Style: st})
		}
	}
	// entries
	nEnt := 1 + g.n(3)
	p.Entries = []int{0}
	for e := 1; e < nEnt; e++ {
		c := g.n(len(p.Mods))
		if isJS(p.Mods[c].Kind) || p.Mods[c].Kind == "css" {
			ok := true
			for _, x := range p.Entries {
				if x == c {
					ok = false
				}
			}
			if ok {
				p.Entries = append(p.Entries, c)
			}
		}
	}
	if p.Twin > 0 {
		tw := p.Mods[p.Twin]
		if (isJS(tw.Kind) || tw.Kind == "css") && g.chance(60) && !entryOf(p, p.Twin) {
			p.Entries = append(p.Entries, p.Twin)
		} else if len(p.Mods) > 1 && !importsTarget(p.Mods[0], p.Twin) {
			// or import it from module 0
			st := ImpNamed
			if !isJS(tw.Kind) {
				st = ImpDefault
				if tw.Kind == "css" {
					st = ImpSideEffect
				}
			}
			if p.Mods[0].Kind == "cjs" {
				st = ImpRequire
			}
			p.Mods[0].Imports = append(p.Mods[0].Imports, Import{Target: p.Twin, Style: st})
		}
	}
	// configs
	if g.chance(50) {
		p.HasRootPJ = true
		p.PkgType = []string{"", "module", "commonjs"}[g.n(3)]
	}
	if g.chance(50) {
		p.TS = &TSConfig{JSX: g.n(4), Paths: true, UseDefine: g.n(3), AlwaysStrict: g.n(3), Target: g.n(3), Version: 1, Fallback: g.n(2) == 1}
		if g.n(3) == 0 {
			p.TS.Extends = true // the base file is missing at first in half of the cases
			p.TS.BasePresent = g.n(2) == 0
		}
	}
	return p
}

func (p *Project) usesAlias() bool { return p.TS != nil && p.TS.Paths && !p.TS.Broken }

// specifier for importing module t from module m
func (p *Project) spec(m *Module, imp Import) string {
	if imp.Target < 0 {
		return imp.Pkg
	}
	t := p.Mods[imp.Target]
	if imp.Spec == "alias" && p.usesAlias() && strings.HasPrefix(t.Path, "src/") {
		rel := strings.TrimPrefix(t.Path, "src/")
		if isJS(t.Kind) && t.Kind != "mjs" && t.Kind != "cjs" {
			rel = rel[:strings.LastIndex(rel, ".")]
		}
		return "@src/" + rel
	}
	rel := relPath(dirOf(m.Path), t.Path)
	if !strings.HasPrefix(rel, ".") {
		rel = "./" + rel
	}
	if isJS(t.Kind) && t.Kind != "mjs" && t.Kind != "cjs" && imp.Spec != "ext" {
		rel = rel[:strings.LastIndex(rel, ".")]
		if strings.HasSuffix(rel, "/index") && rel != "./index" {
			rel = strings.TrimSuffix(rel, "/index") // directory import
		}
	}
	return rel
}

func dirOf(p string) string {
	if i := strings.LastIndex(p, "/"); i >= 0 {
		return p[:i]
	}
	return ""
}

func relPath(fromDir, to string) string {
	f := strings.Split(fromDir, "/")
	t := strings.Split(to, "/")
	i := 0
	for i < len(f) && i < len(t)-1 && f[i] == t[i] {
		i++
	}
	var out []string
	for j := i; j < len(f); j++ {
		if f[j] != "" {
			out = append(out, "..")
		}
	}
	out = append(out, t[i:]...)
	return strings.Join(out, "/")
}

// exported names of module t as seen by importers
func expNames(t *Module) (v, f string) {
	return fmt.Sprintf("v%d", t.ID), fmt.Sprintf("f%d", t.ID)
}

// RenderModule produces the text of one module.
func (p *Project) RenderModule(m *Module) string {
	switch m.Kind {
	case "json":
		return fmt.Sprintf(`{"marker": %q, "n": %d, "list": [1, 2, %d]}`, m.marker(), m.ID, m.Salt)
	case "txt":
		return fmt.Sprintf("text asset %s salt %d\n", m.marker(), m.Salt)
	case "bin":
		return fmt.Sprintf("\x89PNG\r\n\x1a\n%s\x00\x01\x02%d", m.marker(), m.Salt)
	case "css":
		var sb strings.Builder
		for _, im := range m.Imports {
			if p.Mods[im.Target].Kind == "css" && !p.Mods[im.Target].Deleted {
				if m.Feat&FeatEnum != 0 {
					// the same file imported twice under different conditions
					fmt.Fprintf(&sb, "@import %q screen;\n@import %q print;\n", p.spec(m, im), p.spec(m, im))
				} else {
					fmt.Fprintf(&sb, "@import %q;\n", p.spec(m, im))
				}
			}
		}
		if m.Feat&FeatLegal != 0 {
			fmt.Fprintf(&sb, "/*! legal css %d */\n", m.ID)
		}
		fmt.Fprintf(&sb, ".M%dv%d { color: #%06x; margin: %dpx }\n", m.ID, m.Version, (m.ID*7919+m.Salt)&0xffffff, m.Salt)
		for _, im := range m.Imports {
			if p.Mods[im.Target].Kind == "bin" && !p.Mods[im.Target].Deleted {
				fmt.Fprintf(&sb, ".bg%d { background: url(%s) }\n", im.Target, p.spec(m, im))
			}
		}
		if m.Feat&FeatWarn != 0 {
			fmt.Fprintf(&sb, ".w%d { colr: red }\n", m.ID)
		}
		if m.Broken {
			sb.WriteString(".broken { color: red \n@@@ {{{\n")
		}
		return sb.String()
	}
	ts := m.Kind == "ts" || m.Kind == "tsx"
	jsx := m.Kind == "jsx" || m.Kind == "tsx"
	cjs := m.Kind == "cjs"
	var sb strings.Builder
	if m.Note > 0 {
		fmt.Fprintf(&sb, "// note %d\n", m.Note)
	}
	if m.Feat&FeatLegal != 0 {
		fmt.Fprintf(&sb, "/*! legal comment of module %d */\n", m.ID)
	}
	var used []string
	var lazyList []string
	if p.LocalCSS[m.ID] {
		if cjs {
			sb.WriteString("const btn = require(\"./button.module.css\");\n")
		} else {
			sb.WriteString("import btn from \"./button.module.css\";\n")
		}
		used = append(used, "btn.root", "btn.title")
	}
	if p.Legacy && m.ID == 0 {
		if cjs {
			sb.WriteString("require(\"./legacy.js\");\n")
		} else {
			sb.WriteString("import \"./legacy.js\";\n")
		}
	}
	for _, im := range m.Imports {
		var t *Module
		spec := p.spec(m, im)
		q := fmt.Sprintf("%q", spec)
		id := 0
		if im.Target >= 0 {
			t = p.Mods[im.Target]
			id = t.ID
			if t.Deleted && false {
				continue
			}
		} else {
			id = 900 + int(im.Pkg[len(im.Pkg)-1]-'0')
		}
		var v, f string
		if t != nil {
			v, f = expNames(t)
		} else {
			v, f = "pv", "pf"
		}
		nonJS := t != nil && !isJS(t.Kind)
		switch {
		case nonJS && im.Style == ImpSideEffect:
			fmt.Fprintf(&sb, "import %s;\n", q)
		case nonJS && im.Style == ImpRequire:
			fmt.Fprintf(&sb, "const asset%d = require(%s);\n", id, q)
			used = append(used, fmt.Sprintf("asset%d", id))
		case nonJS && t.Kind == "json" && (im.Style == ImpNamed || im.Style == ImpStar):
			// named (and default) imports of a JSON file's top-level properties
			fmt.Fprintf(&sb, "import { marker as jm%d, list as jl%d } from %s;\n", id, id, q)
			used = append(used, fmt.Sprintf("jm%d", id), fmt.Sprintf("jl%d", id))
			if im.Style == ImpStar {
				fmt.Fprintf(&sb, "import asset%d from %s;\n", id, q)
				used = append(used, fmt.Sprintf("asset%d", id))
			}
		case nonJS && t.Kind == "json" && im.Attr && !cjs:
			fmt.Fprintf(&sb, "import asset%d from %s with { type: \"json\" };\n", id, q)
			used = append(used, fmt.Sprintf("asset%d", id))
		case nonJS:
			fmt.Fprintf(&sb, "import asset%d from %s;\n", id, q)
			used = append(used, fmt.Sprintf("asset%d", id))
		case im.Style == ImpNamed && t != nil && t.Feat&FeatCollide != 0 && t.Kind != "cjs":
			// every module with this feature exports the same names (init, shared): symbols
			// with one original name from several files meet in one chunk
			fmt.Fprintf(&sb, "import { %s as a%d, %s as b%d, init as i%d } from %s;\n", v, id, f, id, id, q)
			used = append(used, fmt.Sprintf("a%d", id), fmt.Sprintf("b%d(1)", id), fmt.Sprintf("i%d()", id))
		case im.Style == ImpNamed:
			fmt.Fprintf(&sb, "import { %s as a%d, %s as b%d } from %s;\n", v, id, f, id, q)
			used = append(used, fmt.Sprintf("a%d", id), fmt.Sprintf("b%d(1)", id))
		case im.Style == ImpDefault:
			fmt.Fprintf(&sb, "import d%d from %s;\n", id, q)
			used = append(used, fmt.Sprintf("d%d", id))
		case im.Style == ImpStar:
			fmt.Fprintf(&sb, "import * as ns%d from %s;\n", id, q)
			used = append(used, fmt.Sprintf("ns%d.%s", id, v))
		case im.Style == ImpDynamicList:
			lazyList = append(lazyList, fmt.Sprintf("() => import(%s)", q))
		case im.Style == ImpDynamic && cjs:
			fmt.Fprintf(&sb, "exports.lazy%d_%d = () => import(%s);\n", m.ID, id, q)
		case im.Style == ImpDynamic:
			fmt.Fprintf(&sb, "export const lazy%d_%d = () => import(%s);\n", m.ID, id, q)
		case im.Style == ImpRequire:
			fmt.Fprintf(&sb, "const r%d = require(%s);\n", id, q)
			used = append(used, fmt.Sprintf("r%d.%s", id, v))
		case im.Style == ImpSideEffect:
			fmt.Fprintf(&sb, "import %s;\n", q)
		case im.Style == ImpReexportStar:
			fmt.Fprintf(&sb, "export * from %s;\n", q)
		case im.Style == ImpReexportNamed:
			fmt.Fprintf(&sb, "export { %s as re%d_%d } from %s;\n", v, m.ID, id, q)
		case im.Style == ImpUnused:
			fmt.Fprintf(&sb, "import { %s as unused%d } from %s;\n", v, id, q)
		}
	}
	if len(lazyList) > 0 {
		if cjs {
			fmt.Fprintf(&sb, "exports.lazyAll%d = [%s];\n", m.ID, strings.Join(lazyList, ", "))
		} else {
			fmt.Fprintf(&sb, "export const lazyAll%d = [%s];\n", m.ID, strings.Join(lazyList, ", "))
		}
	}
	if ts && m.Feat&FeatTypes != 0 {
		fmt.Fprintf(&sb, "interface I%d { x: number; y?: string }\ntype T%d = I%d | null;\n", m.ID, m.ID, m.ID)
	}
	fmt.Fprintf(&sb, "console.log(%q);\n", m.marker())
	if m.Feat&FeatGlobals != 0 {
		fmt.Fprintf(&sb, "Object.freeze({ k: %d });\nconst pi%d = Math.PI * %d;\n", m.ID, m.ID, m.Salt+1)
		used = append(used, fmt.Sprintf("pi%d", m.ID))
	}
	if m.Feat&FeatCollide != 0 {
		fmt.Fprintf(&sb, "let helper = (x) => x + %d;\nlet value = helper(%d);\nfunction shared() { return value }\n", m.ID, m.Salt)
		if !cjs {
			fmt.Fprintf(&sb, "export function init() { return helper(%d) }\n", m.ID)
		}
		used = append(used, "shared()")
	}
	if m.Feat&FeatMangle != 0 {
		fmt.Fprintf(&sb, "const obj%d = { _priv%d_: %d, _common_: 1, pub: 2 };\n", m.ID, m.ID, m.Salt)
		used = append(used, fmt.Sprintf("obj%d._priv%d_ + obj%d._common_", m.ID, m.ID, m.ID))
	}
	if ts && m.Feat&FeatEnum != 0 {
		fmt.Fprintf(&sb, "export enum E%d { A = %d, B = A * 2, C = \"c%d\" }\n", m.ID, m.ID+1, m.ID)
		used = append(used, fmt.Sprintf("E%d.B", m.ID))
	}
	if m.Feat&FeatClass != 0 {
		if ts {
			fmt.Fprintf(&sb, "export class K%d { x: number = %d; static s = 'k%d'; declare d: string; y; m() { return this.x } }\n", m.ID, m.Salt, m.ID)
		} else {
			exp := "export "
			if cjs {
				exp = ""
			}
			fmt.Fprintf(&sb, "%sclass K%d { x = %d; static s = 'k%d'; y; m() { return this.x } }\n", exp, m.ID, m.Salt, m.ID)
		}
		used = append(used, fmt.Sprintf("new K%d().m()", m.ID))
	}
	if jsx && m.Feat&FeatJSXElem != 0 {
		fmt.Fprintf(&sb, "export const el%d = <div id=\"e%d\"><span>{%d}</span></div>;\n", m.ID, m.ID, m.Salt)
	}
	if m.Feat&FeatTopLevelThis != 0 && !cjs {
		fmt.Fprintf(&sb, "export const self%d = typeof this;\n", m.ID)
	}
	if m.Feat&FeatWarn != 0 {
		fmt.Fprintf(&sb, "if (typeof x%d === 'nul') console.log(-0 == x%d);\n", m.ID, m.ID)
	}
	sum := "0"
	if len(used) > 0 {
		sum = strings.Join(used, ", ")
	}
	v, f := expNames(m)
	if cjs {
		fmt.Fprintf(&sb, "exports.%s = [%d, %s];\nexports.%s = function(o) { return o + %d };\nmodule.exports.default = %d;\n", v, m.Salt, sum, f, m.ID, m.ID)
	} else {
		typ := ""
		if ts {
			typ = ": any"
		}
		fmt.Fprintf(&sb, "export const %s%s = [%d, %s];\nexport function %s(o%s) { return o + %d }\nexport default %d;\n", v, typ, m.Salt, sum, f, typ, m.ID, m.ID*10+m.Salt)
	}
	if m.Feat&FeatSourceMapComment != 0 {
		v := smVariants[(m.ID*7+m.Salt)%len(smVariants)]
		if strings.HasPrefix(v, "RAW:") {
			fmt.Fprintf(&sb, "//# sourceMappingURL=data:application/json;base64,%s\n", v[4:])
		} else {
			fmt.Fprintf(&sb, "//# sourceMappingURL=data:application/json;base64,%s\n", base64.StdEncoding.EncodeToString([]byte(v)))
		}
	}
	if m.Broken {
		sb.WriteString("export let broken = (1 +\n")
	}
	return sb.String()
}

// pkgRealDir: where the files of the package live (a linked package lives outside
// node_modules and is reached through a symbolic link).
func pkgRealDir(pk *Pkg) string {
	if pk.Linked {
		return fmt.Sprintf("packages/%s-v%d", pk.Name, pk.LinkVer)
	}
	return pk.Dir
}

// Links returns the symbolic links of the project (path -> target), all relative.
func (p *Project) Links() map[string]string {
	links := map[string]string{}
	for _, pk := range p.Pkgs {
		if pk.Linked && !pk.Deleted {
			up := strings.Repeat("../", strings.Count(pk.Dir, "/"))
			links[pk.Dir] = up + pkgRealDir(pk)
		}
	}
	return links
}

func (p *Project) renderPkg(pk *Pkg, files map[string]string) {
	realPk := *pk
	realPk.Dir = pkgRealDir(pk)
	pk = &realPk
	se := ""
	switch pk.SideEffects {
	case 1:
		se = `, "sideEffects": false`
	case 2:
		se = `, "sideEffects": true`
	}
	ty := ""
	if pk.Type != "" {
		ty = fmt.Sprintf(`, "type": %q`, pk.Type)
	}
	entry := `"main": "./index.js"`
	switch pk.Entry {
	case 1:
		entry = `"main": "./index.js", "module": "./esm.mjs"`
	case 2:
		entry = `"exports": { ".": { "import": "./esm.mjs", "require": "./index.js", "default": "./index.js" } }`
	}
	files[pk.Dir+"/package.json"] = fmt.Sprintf(`{"name": %q, "version": "1.0.%d", %s%s%s}`, pk.Name, pk.Version, entry, se, ty)
	mk := fmt.Sprintf("P%s@%d", pk.Name, pk.Version)
	esm := fmt.Sprintf("console.log(%q);\nexport const pv = %d;\nexport function pf(o) { return o }\nexport const extra = 'x';\nexport default pv;\n", mk+"e", pk.Version)
	cjs := fmt.Sprintf("console.log(%q);\nexports.pv = %d;\nexports.pf = function(o) { return o };\nexports.default = 1;\n", mk+"c", pk.Version)
	if pk.Type == "module" {
		files[pk.Dir+"/index.js"] = esm
	} else {
		files[pk.Dir+"/index.js"] = cjs
	}
	if pk.PeerMissing && pk.Entry == 1 {
		esm = fmt.Sprintf("import \"missing-peer-of-%s\";\n", pk.Name) + esm
	}
	files[pk.Dir+"/esm.mjs"] = esm
}

// Render returns every file of the project (relative path -> content).
func (p *Project) Render() map[string]string {
	files := map[string]string{}
	for _, m := range p.Mods {
		if !m.Deleted {
			files[m.Path] = p.RenderModule(m)
		}
	}
	for _, pk := range p.Pkgs {
		if !pk.Deleted {
			p.renderPkg(pk, files)
		}
	}
	if p.HasRootPJ {
		ty := ""
		if p.PkgType != "" {
			ty = fmt.Sprintf(`, "type": %q`, p.PkgType)
		}
		pad := ""
		for i := 0; i < p.PJPad; i++ {
			if i%2 == 0 {
				pad += fmt.Sprintf(`, "pad%d": %d`, i, i)
			} else {
				pad += ",\n  \"description\": \"line\""
			}
		}
		ver := ""
		if p.PJVer > 0 {
			ver = fmt.Sprintf(`, "version": "1.0.%d"`, p.PJVer%10)
		}
		files["package.json"] = fmt.Sprintf(`{"name": "proj"%s%s%s}`, pad, ty, ver)
	}
	if p.TS != nil {
		files["tsconfig.json"] = p.TS.render()
		if p.TS.Extends && p.TS.BasePresent {
			files["tsconfig.base.json"] = fmt.Sprintf(`{"compilerOptions": {"jsx": %q}}`, []string{"react", "react-jsx", "preserve"}[p.TS.BaseJSX%3])
		}
	}
	for id := range p.LocalCSS {
		if id < len(p.Mods) && !p.Mods[id].Deleted {
			dir := dirOf(p.Mods[id].Path) // (the content depends on the directory only: several modules may share one)
			files[dir+"/button.module.css"] = fmt.Sprintf(".root { color: #%06x }\n.title { margin: %dpx }\n", fnv64(dir)&0xffffff, len(dir))
		}
	}
	for k, v := range p.Extra {
		if !p.ExtraDel[k] {
			files[k] = v
		}
	}
	if p.Legacy {
		files["src/legacy.js"] = "module.exports = { legacy: typeof exports };\nconsole.log(\"LEGACY\");\n"
	}
	return files
}

func (t *TSConfig) render() string {
	if t.Broken {
		return `{"compilerOptions": {"jsx": "react", ` // truncated
	}
	var opts []string
	jsx := t.JSX
	if t.Extends {
		jsx = 0
	}
	switch jsx {
	case 1:
		opts = append(opts, `"jsx": "react"`)
	case 2:
		opts = append(opts, `"jsx": "react-jsx"`)
	case 3:
		opts = append(opts, `"jsx": "preserve"`)
	}
	if t.Paths && t.Fallback {
		opts = append(opts, `"baseUrl": ".", "paths": {"@src/*": ["override/*", "src/*"]}`)
	} else if t.Paths {
		opts = append(opts, `"baseUrl": ".", "paths": {"@src/*": ["src/*"]}`)
	}
	switch t.UseDefine {
	case 1:
		opts = append(opts, `"useDefineForClassFields": true`)
	case 2:
		opts = append(opts, `"useDefineForClassFields": false`)
	}
	switch t.AlwaysStrict {
	case 1:
		opts = append(opts, `"alwaysStrict": true`)
	case 2:
		opts = append(opts, `"alwaysStrict": false`)
	}
	switch t.Target {
	case 1:
		opts = append(opts, `"target": "ES2020"`)
	case 2:
		opts = append(opts, `"target": "ES2022"`)
	}
	ext := ""
	if t.Extends {
		ext = `"extends": "./tsconfig.base.json", `
	}
	return fmt.Sprintf(`{%s"compilerOptions": {%s}, "x": %d}`, ext, strings.Join(opts, ", "), t.Version)
}

// WriteTo renders the project and stores every file on the disk (only files whose
// content differs from what is there are written). Files that the model no longer has
// are removed when prune lists them.
func (p *Project) WriteTo(d *verifsim.Disk, inPlace bool) {
	files := p.Render()
	names := make([]string, 0, len(files))
	for k := range files {
		names = append(names, k)
	}
	sort.Strings(names)
	for _, k := range names {
		abs := p.Root + "/" + k
		if old, ok := d.Get(abs); ok && string(old) == files[k] {
			continue
		}
		d.PutFile(abs, []byte(files[k]), inPlace)
	}
	links := p.Links()
	lk := make([]string, 0, len(links))
	for k := range links {
		lk = append(lk, k)
	}
	sort.Strings(lk)
	for _, k := range lk {
		abs := p.Root + "/" + k
		if d.Kind(abs) == "symlink" && d.LinkTarget(abs) == links[k] {
			continue
		}
		d.RemoveAll(abs)
		d.Symlink(links[k], abs)
	}
}

func (p *Project) Clone() *Project {
	c := *p
	c.Mods = nil
	for _, m := range p.Mods {
		mm := *m
		mm.Imports = append([]Import(nil), m.Imports...)
		c.Mods = append(c.Mods, &mm)
	}
	c.Pkgs = nil
	for _, k := range p.Pkgs {
		kk := *k
		c.Pkgs = append(c.Pkgs, &kk)
	}
	c.Entries = append([]int(nil), p.Entries...)
	c.ExtraEntries = append([]string(nil), p.ExtraEntries...)
	if p.LocalCSS != nil {
		c.LocalCSS = map[int]bool{}
		for k, v := range p.LocalCSS {
			c.LocalCSS[k] = v
		}
	}
	if p.TS != nil {
		t := *p.TS
		c.TS = &t
	}
	c.Extra = map[string]string{}
	for k, v := range p.Extra {
		c.Extra[k] = v
	}
	c.ExtraDel = map[string]bool{}
	for k, v := range p.ExtraDel {
		c.ExtraDel[k] = v
	}
	return &c
}

// Trim keeps the first n modules only and removes every import of a dropped module, so
// that the smaller project still builds (used where histories must stay short).
func (p *Project) Trim(n int) {
	if len(p.Mods) <= n {
		return
	}
	for _, m := range p.Mods[n:] {
		m.Deleted = true
	}
	for _, m := range p.Mods[:n] {
		var keep []Import
		for _, im := range m.Imports {
			if im.Target < 0 || im.Target < n {
				keep = append(keep, im)
			}
		}
		m.Imports = keep
	}
	var ents []int
	for _, e := range p.Entries {
		if e < n {
			ents = append(ents, e)
		}
	}
	if len(ents) == 0 {
		ents = []int{0}
	}
	p.Entries = ents
	if p.Twin >= n {
		p.Twin = 0
	}
}

func (p *Project) EntryPaths() []string {
	var out []string
	for _, e := range p.Entries {
		out = append(out, p.Mods[e].Path)
	}
	out = append(out, p.ExtraEntries...)
	return out
}

func importsTarget(m *Module, t int) bool {
	for _, im := range m.Imports {
		if im.Target == t {
			return true
		}
	}
	return false
}

// Input source maps attached to modules through sourceMappingURL data URLs: valid ones
// and structurally odd or malformed ones (C16 names malformed sourceMappingURL payloads).
var smVariants = []string{
	`{"version":3,"sources":["orig.ts"],"names":[],"mappings":"AAAA"}`,
	`{"version":3,"sources":["orig.ts"],"names":[null,"x",3],"mappings":"AAAAC,CAAAC"}`,
	`{"version":3,"sources":["orig.ts"],"sourcesContent":["let a = 1"],"names":["a"],"mappings":"AAAAA;AACA"}`,
	`{"version":3,"sources":[null,1],"names":["a"],"mappings":"AAAAA"}`,
	`{"version":3,"sources":["orig.ts"],"names":[],"mappings":"ACAA,CAAE"}`,
	`{"version":3,"sources":["orig.ts"],"names":["a"],"mappings":"AAAAE,DAAA"}`,
	`{"version":3,"sources":["orig.ts"],"names":[],"mappings":"ggggggggggggggggB"}`,
	`{"version":2,"sources":["orig.ts"],"names":[],"mappings":"AAAA"}`,
	`[1,2,3]`,
	`{"version":3,"sources":["a.ts","b.ts"],"sourcesContent":[null],"names":[],"mappings":"AAAA;;ACAA"}`,
	`{"version":3,"sections":[{"offset":{"line":0,"column":0},"map":{"version":3,"sources":["s.ts"],"names":[],"mappings":"AAAA"}}]}`,
	`{"version":3,"sources":["orig.ts"`,
	`RAW:!!!not-base64@@@`,
	`{"version":3,"sources":["orig.ts"],"names":[],"mappings":5}`,
	`{"version":3,"sources":["orig.ts"],"names":{"a":1},"mappings":";;;;;;;;AAAA,,,"}`,
	`{"version":3,"sourceRoot":"rel/root","sources":["../x/orig.ts"],"names":["n1","n2"],"mappings":"AAAAA,IAAIC;AACA"}`,
	// index maps: a good section followed by a section whose mappings go bad after a named segment
	`{"version":3,"sections":[{"offset":{"line":0,"column":0},"map":{"version":3,"sources":["s.ts"],"names":["n"],"mappings":"AAAAA"}},{"offset":{"line":1,"column":0},"map":{"version":3,"sources":["t.ts"],"names":["m"],"mappings":"AAAAA,!"}}]}`,
	`{"version":3,"sections":[{"offset":{"line":0,"column":0},"map":{"version":3,"sources":["s.ts"],"names":["n"],"mappings":"AAAAA,ICAAC"}},{"offset":{"line":0,"column":9},"map":{"version":3,"sources":[],"names":[],"mappings":"AAAA"}},{"offset":{"line":2,"column":0},"map":{"version":3,"sources":["u.ts"],"names":["a","b"],"mappings":"AAAAC;AACAC,$$$"}}]}`,
}

// AddCSSSite adds a small style-sheet site to the project: several CSS entry points
// ("pages") that import shared sheets (some of them more than once, directly and through
// other sheets), with @layer lists of one to four names, layer blocks, import conditions
// and nested imports. Everything is raw (Extra) and the pages are extra entry points.
func (p *Project) AddCSSSite(g G) {
	nShared := 1 + g.n(3)
	for i := 0; i < nShared; i++ {
		var names []string
		for j, n := 0, 1+g.n(4); j < n; j++ {
			names = append(names, fmt.Sprintf("%c%d", 'a'+j, i))
		}
		p.Extra[fmt.Sprintf("css/shared_%d.css", i)] = fmt.Sprintf("@layer %s;\n:root { --gap%d: %dpx }\n.s%d { color: #%06x }\n", strings.Join(names, ", "), i, i+2, i, (i*99991+7)&0xffffff)
	}
	p.Extra["css/leaf.css"] = ".leaf { color: green }\n"
	nPages := 2 + g.n(7)
	// the pages of a site look alike: one template (a sequence of imports), which most
	// pages follow and some deviate from
	type imp struct{ kind, shared int }
	draw := func(own int) []imp {
		// the usual shape of a page: its resets, some shared sheets, its widget, extras
		var t []imp
		sharedImp := func() imp {
			x := imp{kind: []int{1, 1, 4, 5}[g.n(4)], shared: g.n(nShared)}
			if g.n(2) == 0 {
				x.shared = own // the widget's sheet imported directly as well: a duplicate import
			}
			return x
		}
		if g.n(3) != 0 {
			t = append(t, imp{kind: 0})
		}
		for i, n := 0, g.n(3); i < n; i++ {
			t = append(t, sharedImp())
		}
		if g.n(3) != 0 {
			t = append(t, imp{kind: 3})
		}
		if g.n(3) == 0 {
			t = append(t, sharedImp())
		}
		if len(t) == 0 {
			t = append(t, sharedImp())
		}
		return t
	}
	tmplOwn := g.n(nShared)
	tmpl := draw(tmplOwn)
	for k := 0; k < nPages; k++ {
		own, seq := tmplOwn, tmpl
		if g.n(5) == 0 {
			own = g.n(nShared)
			seq = draw(own)
		}
		p.Extra[fmt.Sprintf("css/first_%d.css", k)] = fmt.Sprintf("@layer first_%d;\n@import \"./leaf.css\";\n@layer first_%d { .first_%d { color: red } }\n", k, k, k)
		p.Extra[fmt.Sprintf("css/widget_%d.css", k)] = fmt.Sprintf("@layer widget_%d;\n@import \"./shared_%d.css\";\n@layer widget_%d { .widget_%d { gap: var(--gap0) } }\n", k, own, k, k)
		var sb strings.Builder
		fmt.Fprintf(&sb, "@layer page_%d;\n", k)
		for _, x := range seq {
			sh := fmt.Sprintf("./shared_%d.css", x.shared)
			switch x.kind {
			case 0:
				fmt.Fprintf(&sb, "@import \"./first_%d.css\";\n", k)
			case 1, 2:
				fmt.Fprintf(&sb, "@import %q;\n", sh)
			case 3:
				fmt.Fprintf(&sb, "@import \"./widget_%d.css\";\n", k)
			case 4:
				fmt.Fprintf(&sb, "@import %q layer(imported_%d);\n", sh, k)
			case 5:
				fmt.Fprintf(&sb, "@import %q screen;\n", sh)
			}
		}
		fmt.Fprintf(&sb, "@layer page_%d { body { margin: %dpx } }\n", k, k)
		name := fmt.Sprintf("css/page_%d.css", k)
		p.Extra[name] = sb.String()
		p.ExtraEntries = append(p.ExtraEntries, name)
	}
}
