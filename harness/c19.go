package harness

// C19 — the metafile is an exact account of the build (I/O-accounting clauses, DESIGN §4.6).

import (
	"fmt"
	"strings"
)

func init() { scenarios["C19"] = scenarioC19 }

func scenarioC19(rc *RunCtx) *Violation {
	g := rc.G
	p := GenProject(g, "/p")
	o := GenOptions(g, p)
	o.Metafile = true
	if o.Inject {
		p.Extra["src/inject.js"] = "export let injected = 'INJ';\nconsole.log('inject');\n"
	}
	d := newDisk(g)
	d.Gran = granChoices[g.n(len(granChoices))]
	cfg := HistCfg{Steps: 1 + g.n(6), InPlace: g.n(2) == 1, EditsPerStep: 3}
	if rc.Tier == "thorough" {
		cfg.Steps += g.n(8)
	}
	p.WriteTo(d, false)
	rc.Note(fmt.Sprintf("proj:%x gran:%d", fnv64(fmt.Sprint(describeProject(p, o))), d.Gran))
	recs, s := RunHistory(rc, p, o, d, cfg)
	rc.Sample("project", describeProject(p, o))
	rc.Sample("history", histSample(recs))
	if s.Panic != nil {
		rc.Probe("history_aborted")
		return nil
	}
	var hist []string
	for _, r := range recs {
		hist = append(hist, strings.Join(r.Edits, "; "))
		if r.Aborted != "" {
			rc.Probe("context_error")
			return nil
		}
		if v := CheckMetafile(rc, r, "incremental"); v != nil {
			v.Detail += "; history: " + strings.Join(hist, " || ")
			return v
		}
		f := FreshBuild(rc, r)
		if f.Aborted != "" {
			continue
		}
		if v := CheckMetafile(rc, f, "fresh"); v != nil {
			v.Detail += "; history: " + strings.Join(hist, " || ")
			return v
		}
		if buildOK(r.Res) {
			rc.Probe("successful_build")
		}
	}
	rc.Note("hist:" + fmt.Sprintf("%x", fnv64(strings.Join(hist, "|"))))
	return nil
}
