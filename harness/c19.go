package harness

// C19 — the metafile is an exact account of the build (I/O-accounting clauses, DESIGN §4.6).

import (
	"fmt"
	"strings"
)

func init() { scenarios["C19"] = scenarioC19 }

func scenarioC19(rc *RunCtx) *Violation {
	g := rc.G
	p := GenProject(g, "/p")
	o := GenOptions(g, p)
	o.Metafile = true
	// never AllowOverwrite here: with the output directory inside the sources a build would
	// replace its own inputs by bundles, and the next build's "inputs" would legitimately
	// contain other modules' markers (false alarm found by the thorough tier, seed 101)
	o.AllowOverwrite = false
	if g.n(4) == 0 {
		// external packages, sometimes for an engine without import(): the dynamic imports of
		// external modules are then printed as require() calls, and the metafile must say so
		o.Bundle = true
		o.Packages = 1
		if g.n(2) == 0 {
			o.Target = 5
		}
		rc.Probe("profile_external_packages")
	}
	if o.Inject {
		p.Extra["src/inject.js"] = "export let injected = 'INJ';\nconsole.log('inject');\n"
	}
	// profile: two entry points in directories of different depth reference the same
	// chunk (import()) and the same file-loader asset, with "[dir]" in the entry names and
	// no public path, so that one referenced file is written with paths of different
	// lengths into different outputs (the byte counts must follow the substituted paths)
	if g.n(5) == 0 {
		var shallow, deep, target, asset *Module
		for _, m := range p.Mods {
			if m.Deleted || !isJS(m.Kind) || m.Kind == "cjs" {
				continue
			}
			depth := strings.Count(m.Path, "/")
			switch {
			case depth == 1 && shallow == nil:
				shallow = m
			case depth >= 2 && deep == nil:
				deep = m
			}
		}
		for _, m := range p.Mods {
			if m.Deleted || m == shallow || m == deep {
				continue
			}
			if isJS(m.Kind) && target == nil && !entryOf(p, m.ID) {
				target = m
			}
			if m.Kind == "bin" && asset == nil {
				asset = m
			}
		}
		if shallow != nil && deep != nil && target != nil {
			for _, e := range []*Module{shallow, deep} {
				if !entryOf(p, e.ID) {
					p.Entries = append(p.Entries, e.ID)
				}
				if !importsTarget(e, target.ID) {
					e.Imports = append(e.Imports, Import{Target: target.ID, Style: ImpDynamic})
				}
				if asset != nil && !importsTarget(e, asset.ID) {
					e.Imports = append(e.Imports, Import{Target: asset.ID, Style: ImpDefault})
				}
			}
			o.Bundle = true
			o.Format = 0
			o.Splitting = g.chance(70)
			o.EntryNames = []int{1, 4}[g.n(2)]
			o.PublicPath = 0
			o.BinLoader = 0
			o.MinifyWS = false
			o.LineLimit = 0
			rc.Probe("shared_reference_from_different_depths_profile")
		}
	}
	if g.n(8) == 0 {
		// a style-sheet site next to the modules: CSS entry points, @layer lists, sheets imported twice
		o.Bundle = true
		p.AddCSSSite(g)
		rc.Probe("profile_css_site")
	}
	if g.n(12) == 0 {
		// a large project (more than 256 files switches the metafile to its compact form)
		// whose extra entry point lives in a directory with a space in its name
		n := 262 + g.n(40)
		for i := 0; i < n; i++ {
			next := ""
			if i+1 < n {
				next = fmt.Sprintf("import \"./f%d.js\";\n", i+1)
			}
			p.Extra[fmt.Sprintf("src/big dir/f%d.js", i)] = fmt.Sprintf("%sconsole.log(\"BIG%d\");\n", next, i)
		}
		p.ExtraEntries = append(p.ExtraEntries, "src/big dir/f0.js")
		o.Bundle = true
		rc.Probe("profile_large_project")
	}
	d := newDisk(g)
	d.Gran = granChoices[g.n(len(granChoices))]
	cfg := HistCfg{Steps: 1 + g.n(6), InPlace: g.n(2) == 1, EditsPerStep: 3}
	if rc.Tier == "thorough" {
		cfg.Steps += g.n(8)
	}
	p.WriteTo(d, false)
	rc.Note(fmt.Sprintf("proj:%x gran:%d", fnv64(fmt.Sprint(describeProject(p, o))), d.Gran))
	recs, s := RunHistory(rc, p, o, d, cfg)
	rc.Sample("project", describeProject(p, o))
	rc.Sample("history", histSample(recs))
	if s.Panic != nil {
		rc.Probe("history_aborted")
		return nil
	}
	var hist []string
	for _, r := range recs {
		hist = append(hist, strings.Join(r.Edits, "; "))
		if r.Aborted != "" {
			rc.Probe("context_error")
			return nil
		}
		if v := CheckMetafile(rc, r, "incremental"); v != nil {
			v.Detail += "; history: " + strings.Join(hist, " || ")
			return v
		}
		f := FreshBuild(rc, r)
		if f.Aborted != "" {
			continue
		}
		if v := CheckMetafile(rc, f, "fresh"); v != nil {
			v.Detail += "; history: " + strings.Join(hist, " || ")
			return v
		}
		// the account given after an incremental rebuild is the account a fresh build of
		// the same tree gives (the fresh build is the reference model)
		if buildOK(r.Res) && buildOK(f.Res) && r.Res.Metafile != f.Res.Metafile {
			return &Violation{Class: "metafile-of-rebuild-differs-from-fresh-build", Key: "metafile",
				Detail: fmt.Sprintf("step %d: %s; history: %s", r.Step, firstDiff(f.Res.Metafile, r.Res.Metafile), strings.Join(hist, " || "))}
		}
		if buildOK(r.Res) {
			rc.Probe("successful_build")
		}
	}
	rc.Note("hist:" + fmt.Sprintf("%x", fnv64(strings.Join(hist, "|"))))
	return nil
}
