package harness

// Differential validation of the simulated disk against the real kernel file system
// (DESIGN.md 7.3): random operation sequences are applied to both; results, error
// kinds, file types, sizes, directory listings and link targets must agree.

import (
	"fmt"
	"os"
	"path/filepath"
	"sort"
	"strings"
	"syscall"
	"testing"

	"github.com/evanw/esbuild/pkg/verifsim"
	"golang.org/x/sys/unix"
)

func errnoOf(err error) string {
	if err == nil {
		return ""
	}
	e := err
	if pe, ok := e.(*os.PathError); ok {
		e = pe.Err
	}
	if le, ok := e.(*os.LinkError); ok {
		e = le.Err
	}
	if se, ok := e.(*os.SyscallError); ok {
		e = se.Err
	}
	if en, ok := e.(syscall.Errno); ok {
		return fmt.Sprintf("errno%d", int(en))
	}
	return "other:" + err.Error()
}

func TestDiskVsKernel(t *testing.T) {
	if os.Getenv("VERIF_DISKTEST") == "" {
		t.Skip("set VERIF_DISKTEST=1")
	}
	seqs := envInt("VERIF_RUNS", 300)
	ops, mismatches := 0, 0
	for seq := 0; seq < seqs; seq++ {
		tape := verifsim.NewTape(uint64(seq)+1, 1<<12)
		g := G{tape}
		tmp := t.TempDir()
		real := func(p string) string { return tmp + p }
		d := verifsim.NewDisk()
		d.MkdirAll("/r")
		os.MkdirAll(real("/r"), 0755)
		names := []string{"a", "b", "c", "d.js", "e"}
		randPath := func() string {
			n := 1 + g.n(3)
			parts := []string{"/r"}
			for i := 0; i < n; i++ {
				parts = append(parts, names[g.n(len(names))])
			}
			// (no trailing slashes: esbuild builds its paths with Join/Clean)
			return strings.Join(parts, "/")
		}
		var log []string
		bad := func(f string, a ...interface{}) {
			mismatches++
			if mismatches <= 10 {
				t.Errorf("seq %d: %s\n  history: %s", seq, fmt.Sprintf(f, a...), strings.Join(log, "; "))
			}
		}
		verifsim.Run(t, verifsim.Config{Disk: d, Sched: verifsim.ReplayTape(nil)}, func() {
			for i := 0; i < 40; i++ {
				p := randPath()
				ops++
				switch g.n(11) {
				case 0: // mkdir
					e1 := verifsim.Mkdir(p, 0755)
					e2 := os.Mkdir(real(p), 0755)
					log = append(log, "mkdir "+p)
					if errnoOf(e1) != errnoOf(e2) {
						bad("mkdir %s: sim %v, kernel %v", p, e1, e2)
					}
				case 1, 2: // writefile
					data := []byte(strings.Repeat("x", g.n(20)))
					e1 := verifsim.WriteFile(p, data, 0644)
					e2 := os.WriteFile(real(p), data, 0644)
					log = append(log, "write "+p)
					if errnoOf(e1) != errnoOf(e2) {
						bad("writefile %s: sim %v, kernel %v", p, e1, e2)
					}
				case 3: // symlink (harness-side edit on the model, os.Symlink on the kernel)
					target := names[g.n(len(names))]
					if g.n(3) == 0 {
						target = "../" + target
					}
					if g.n(4) == 0 {
						target = "/r/" + target
					}
					clean := strings.TrimSuffix(p, "/")
					rt := target
					if strings.HasPrefix(target, "/") {
						rt = real(target)
					}
					if _, err := os.Lstat(real(clean)); err == nil {
						continue // keep it simple: only create links where nothing exists
					}
					if _, err := os.Stat(filepath.Dir(real(clean))); err != nil {
						continue
					}
					if fi, err := os.Stat(filepath.Dir(real(clean))); err != nil || !fi.IsDir() {
						continue
					}
					// the parent must be a real directory in the model too (not reached through a link we cannot map)
					os.Symlink(rt, real(clean))
					d.Symlink(target, clean)
					log = append(log, "symlink "+clean+" -> "+target)
				case 4: // remove
					e1 := verifsim.Remove(p)
					e2 := os.Remove(real(p))
					log = append(log, "remove "+p)
					if errnoOf(e1) != errnoOf(e2) {
						bad("remove %s: sim %v, kernel %v", p, e1, e2)
					}
				case 5: // lstat
					f1, e1 := verifsim.Lstat(p)
					f2, e2 := os.Lstat(real(p))
					if errnoOf(e1) != errnoOf(e2) {
						bad("lstat %s: sim %v, kernel %v", p, e1, e2)
					} else if e1 == nil && (f1.Mode().Type() != f2.Mode().Type() || (f1.Mode().IsRegular() && f1.Size() != f2.Size())) {
						bad("lstat %s: sim mode %v size %d, kernel mode %v size %d", p, f1.Mode(), f1.Size(), f2.Mode(), f2.Size())
					}
				case 6: // stat
					f1, e1 := verifsim.Stat(p)
					f2, e2 := os.Stat(real(p))
					if errnoOf(e1) != errnoOf(e2) {
						bad("stat %s: sim %v, kernel %v", p, e1, e2)
					} else if e1 == nil && (f1.IsDir() != f2.IsDir() || (!f1.IsDir() && f1.Size() != f2.Size())) {
						bad("stat %s: sim dir=%v size %d, kernel dir=%v size %d", p, f1.IsDir(), f1.Size(), f2.IsDir(), f2.Size())
					}
				case 7: // readfile
					b1, e1 := verifsim.ReadFile(p)
					b2, e2 := os.ReadFile(real(p))
					if errnoOf(e1) != errnoOf(e2) {
						bad("readfile %s: sim %v, kernel %v", p, e1, e2)
					} else if string(b1) != string(b2) {
						bad("readfile %s: contents differ", p)
					}
				case 8: // open + readdirnames
					f1, e1 := verifsim.Open(p)
					f2, e2 := os.Open(real(p))
					if errnoOf(e1) != errnoOf(e2) {
						bad("open %s: sim %v, kernel %v", p, e1, e2)
					}
					if e1 == nil && e2 == nil {
						n1, r1 := f1.Readdirnames(-1)
						n2, r2 := f2.Readdirnames(-1)
						sort.Strings(n1)
						sort.Strings(n2)
						if errnoOf(r1) != errnoOf(r2) || strings.Join(n1, ",") != strings.Join(n2, ",") {
							bad("readdirnames %s: sim %v %v, kernel %v %v", p, n1, r1, n2, r2)
						}
						s1, _ := f1.Stat()
						s2, _ := f2.Stat()
						if s1.IsDir() != s2.IsDir() || (!s1.IsDir() && s1.Size() != s2.Size()) {
							bad("fstat %s differs", p)
						}
					}
					if f1 != nil {
						f1.Close()
					}
					if f2 != nil {
						f2.Close()
					}
				case 9: // readlink
					l1, e1 := verifsim.Readlink(p)
					l2, e2 := os.Readlink(real(p))
					if errnoOf(e1) != errnoOf(e2) {
						bad("readlink %s: sim %v, kernel %v", p, e1, e2)
					} else if e1 == nil && l1 != strings.TrimPrefix(l2, tmp) {
						bad("readlink %s: sim %q, kernel %q", p, l1, l2)
					}
				case 10: // unix.Stat as used by the modification key
					var s1, s2 unix.Stat_t
					e1 := verifsim.UnixStat(p, &s1)
					e2 := unix.Stat(real(p), &s2)
					if errnoOf(e1) != errnoOf(e2) {
						bad("unix.Stat %s: sim %v, kernel %v", p, e1, e2)
					} else if e1 == nil && (s1.Mode&unix.S_IFMT != s2.Mode&unix.S_IFMT || (s1.Mode&unix.S_IFMT == unix.S_IFREG && s1.Size != s2.Size)) {
						bad("unix.Stat %s: sim mode %o size %d, kernel mode %o size %d", p, s1.Mode, s1.Size, s2.Mode, s2.Size)
					}
				}
			}
		})
	}
	fmt.Printf("disk-vs-kernel: %d sequences, %d operations compared, %d mismatches\n", seqs, ops, mismatches)
}
