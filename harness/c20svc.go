package harness

// C20 part (b): the real stdio service loop (cmd/esbuild/service.go as library
// pkg/verifsvc) over simulated stdin/stdout. The client below plays the JavaScript
// host; its encoder/decoder are written from the wire format, not imported.

import (
	"encoding/binary"
	"fmt"
	"sort"
	"strings"
	"sync"
	"time"

	"github.com/evanw/esbuild/pkg/verifsim"
	"github.com/evanw/esbuild/pkg/verifsvc"
)

// ---- wire format (own implementation) ----

func encValue(b []byte, v interface{}) []byte {
	u32 := func(b []byte, x uint32) []byte {
		var t [4]byte
		binary.LittleEndian.PutUint32(t[:], x)
		return append(b, t[:]...)
	}
	switch x := v.(type) {
	case nil:
		return append(b, 0)
	case bool:
		if x {
			return append(b, 1, 1)
		}
		return append(b, 1, 0)
	case int:
		return u32(append(b, 2), uint32(x))
	case string:
		return append(u32(append(b, 3), uint32(len(x))), x...)
	case []byte:
		return append(u32(append(b, 4), uint32(len(x))), x...)
	case []interface{}:
		b = u32(append(b, 5), uint32(len(x)))
		for _, it := range x {
			b = encValue(b, it)
		}
		return b
	case map[string]interface{}:
		ks := make([]string, 0, len(x))
		for k := range x {
			ks = append(ks, k)
		}
		sort.Strings(ks)
		b = u32(append(b, 6), uint32(len(ks)))
		for _, k := range ks {
			b = append(u32(b, uint32(len(k))), k...)
			b = encValue(b, x[k])
		}
		return b
	}
	panic(fmt.Sprintf("encValue: %T", v))
}

func encPacket(id uint32, isRequest bool, v interface{}) []byte {
	body := make([]byte, 4)
	if isRequest {
		binary.LittleEndian.PutUint32(body, id<<1)
	} else {
		binary.LittleEndian.PutUint32(body, id<<1|1)
	}
	body = encValue(body, v)
	out := make([]byte, 4, 4+len(body))
	binary.LittleEndian.PutUint32(out, uint32(len(body)))
	return append(out, body...)
}

type decoder struct {
	b   []byte
	err string
}

func (d *decoder) u32() uint32 {
	if len(d.b) < 4 {
		d.err = "truncated"
		return 0
	}
	v := binary.LittleEndian.Uint32(d.b)
	d.b = d.b[4:]
	return v
}

func (d *decoder) bytes(n uint32) []byte {
	if uint32(len(d.b)) < n {
		d.err = "truncated"
		return nil
	}
	v := d.b[:n]
	d.b = d.b[n:]
	return v
}

func (d *decoder) value(depth int) interface{} {
	if d.err != "" || depth > 64 {
		if depth > 64 {
			d.err = "too deep"
		}
		return nil
	}
	if len(d.b) < 1 {
		d.err = "truncated"
		return nil
	}
	k := d.b[0]
	d.b = d.b[1:]
	switch k {
	case 0:
		return nil
	case 1:
		if len(d.b) < 1 {
			d.err = "truncated"
			return nil
		}
		v := d.b[0] != 0
		d.b = d.b[1:]
		return v
	case 2:
		return int(d.u32())
	case 3:
		return string(d.bytes(d.u32()))
	case 4:
		return append([]byte(nil), d.bytes(d.u32())...)
	case 5:
		n := d.u32()
		out := []interface{}{}
		for i := uint32(0); i < n && d.err == ""; i++ {
			out = append(out, d.value(depth+1))
		}
		return out
	case 6:
		n := d.u32()
		out := map[string]interface{}{}
		for i := uint32(0); i < n && d.err == ""; i++ {
			key := string(d.bytes(d.u32()))
			out[key] = d.value(depth + 1)
		}
		return out
	}
	d.err = fmt.Sprintf("unknown type tag %d", k)
	return nil
}

// ---- client ----

type deferredAns struct {
	id  uint32
	pkt []byte
}

type svcClient struct {
	st          *verifsim.Stdio
	g           G
	buf         []byte
	gotVersion  bool
	nextID      uint32
	outstanding map[uint32]string      // our requests awaiting a response: id -> description
	responses   map[uint32]interface{} // id -> response value
	order       []uint32
	svcOpen     map[uint32]bool // service-originated request ids we have not answered yet
	svcKey      map[uint32]int  // the build key a service-originated callback request belongs to
	cancelSnap  map[uint32][]uint32 // our cancel request -> callback requests of that key that were unanswered when it was sent
	disposeSent map[int]bool
	deferred    []deferredAns
	owed        int // service requests received and never answered (stdin closed)
	closed      bool
	viol        *Violation
	log         []string
	svcRequests int
	cancelDuringCallback int
	hold        bool // the host sits on its answers to callbacks for a while (a slow plugin)
	disposedAck map[int]bool
	ctxReady    map[int]bool // the response to the context-creating build request has arrived
	root        string
}

func (c *svcClient) fail(class, f string, a ...interface{}) {
	if c.viol == nil {
		c.viol = &Violation{Class: class, Key: class, Detail: fmt.Sprintf(f, a...)}
	}
}

func (c *svcClient) request(desc string, v map[string]interface{}) uint32 {
	id := c.nextID
	c.nextID++
	c.outstanding[id] = desc
	c.order = append(c.order, id)
	c.log = append(c.log, fmt.Sprintf("-> #%d %s", id, desc))
	if cmd, _ := v["command"].(string); cmd == "dispose" {
		if k, ok := v["key"].(int); ok {
			c.disposeSent[k] = true
		}
	} else if cmd == "cancel" {
		// callbacks of this context that wait for our answer right now: the build that
		// issued them is running and cannot end before we answer
		if k, ok := v["key"].(int); ok && !c.disposeSent[k] {
			var ids []uint32
			for sid := range c.svcOpen {
				if c.svcKey[sid] == k {
					ids = append(ids, sid)
				}
			}
			sort.Slice(ids, func(i, j int) bool { return ids[i] < ids[j] })
			c.cancelSnap[id] = ids
		}
	}
	c.st.Send(encPacket(id, true, v))
	return id
}

// handle processes the bytes received so far.
func (c *svcClient) handle(b []byte) {
	c.buf = append(c.buf, b...)
	for c.viol == nil {
		if len(c.buf) < 4 {
			return
		}
		n := binary.LittleEndian.Uint32(c.buf)
		if uint32(len(c.buf)-4) < n {
			return
		}
		pkt := c.buf[4 : 4+n]
		c.buf = c.buf[4+n:]
		if !c.gotVersion {
			c.gotVersion = true
			if string(pkt) != verifsvc.Version {
				c.fail("service-bad-version", "first packet is %q, expected the version %q", pkt, verifsvc.Version)
			}
			continue
		}
		d := &decoder{b: pkt}
		head := d.u32()
		val := d.value(0)
		if d.err != "" || len(d.b) != 0 {
			c.fail("service-malformed-packet", "packet from the service does not decode cleanly (%s, %d trailing bytes): interleaved or corrupted output", d.err, len(d.b))
			return
		}
		id, isResponse := head>>1, head&1 == 1
		if isResponse {
			desc, ok := c.outstanding[id]
			if !ok {
				if _, dup := c.responses[id]; dup {
					c.fail("service-duplicate-response", "second response for request #%d", id)
				} else {
					c.fail("service-unknown-response-id", "response carries id %d which no outstanding request has", id)
				}
				return
			}
			delete(c.outstanding, id)
			c.responses[id] = val
			c.log = append(c.log, fmt.Sprintf("<- #%d response to %s", id, desc))
			c.checkResponse(id, desc, val)
			continue
		}
		// a request from the service (plugin callback, on-end, ping)
		m, _ := val.(map[string]interface{})
		cmd, _ := m["command"].(string)
		if c.svcOpen[id] {
			c.fail("service-reused-request-id", "service request id %d (%s) is used while an earlier request with that id is unanswered", id, cmd)
			return
		}
		c.svcOpen[id] = true
		if k, ok := m["key"].(int); ok && (cmd == "on-start" || cmd == "on-resolve" || cmd == "on-load") {
			c.svcKey[id] = k
		} else {
			c.svcKey[id] = -1
		}
		c.svcRequests++
		c.log = append(c.log, fmt.Sprintf("<- service request #%d %s", id, cmd))
		var resp map[string]interface{}
		switch cmd {
		case "on-start", "on-end":
			resp = map[string]interface{}{"errors": []interface{}{}, "warnings": []interface{}{}}
			if cmd == "on-end" && c.g.n(10) == 0 {
				resp["errors"] = []interface{}{map[string]interface{}{"id": "", "pluginName": "host", "text": "on-end says no", "location": nil, "notes": []interface{}{}, "detail": -1}}
			}
		case "on-resolve", "on-load":
			resp = map[string]interface{}{}
			if cmd == "on-load" && !c.closed && c.g.n(5) == 0 {
				// re-enter the API from within a callback: ask the service to resolve a path
				if key, ok := m["key"].(int); ok {
					c.request("resolve-reentrant", map[string]interface{}{"command": "resolve", "key": key, "path": "./src/m0", "pluginName": "hostplugin",
						"importer": "", "namespace": "file", "resolveDir": c.root, "kind": "import-statement", "with": map[string]interface{}{}})
				}
			}
		case "ping", "serve-request":
			resp = map[string]interface{}{}
		default:
			resp = map[string]interface{}{}
		}
		ans := encPacket(id, false, resp)
		if c.closed {
			c.owed++
			continue
		}
		if c.hold || c.g.n(3) == 0 {
			c.deferred = append(c.deferred, deferredAns{id, ans}) // answer later, possibly out of order
		} else {
			delete(c.svcOpen, id)
			c.st.Send(ans)
		}
	}
}

func (c *svcClient) flushDeferred() {
	for len(c.deferred) > 0 {
		i := c.g.n(len(c.deferred))
		ans := c.deferred[i]
		c.deferred = append(c.deferred[:i:i], c.deferred[i+1:]...)
		if c.closed {
			c.owed++
			continue
		}
		delete(c.svcOpen, ans.id)
		c.st.Send(ans.pkt)
	}
}

func (c *svcClient) checkResponse(id uint32, desc string, val interface{}) {
	m, ok := val.(map[string]interface{})
	if !ok {
		c.fail("service-bad-response", "response to #%d (%s) is not a map", id, desc)
		return
	}
	switch {
	case strings.HasPrefix(desc, "bogus"), strings.HasPrefix(desc, "resolve-inactive"):
		if _, ok := m["error"]; !ok {
			c.fail("service-bad-response", "response to #%d (%s) should carry an error: %v", id, desc, m)
		}
	case strings.HasPrefix(desc, "transform"):
		if _, ok := m["code"]; !ok {
			if _, ok := m["error"]; !ok {
				c.fail("service-bad-response", "transform response #%d has neither code nor error", id)
			}
		}
	case strings.HasPrefix(desc, "build"), strings.HasPrefix(desc, "context"):
		if strings.HasPrefix(desc, "context") {
			var key int
			fmt.Sscanf(desc, "context key=%d", &key)
			c.ctxReady[key] = true
		}
		if _, ok := m["errors"]; !ok {
			if _, ok := m["error"]; !ok {
				c.fail("service-bad-response", "build response #%d has neither errors nor error: %v", id, m)
			}
		}
	case strings.HasPrefix(desc, "cancel"):
		var key int
		fmt.Sscanf(desc, "cancel key=%d", &key)
		for _, sid := range c.cancelSnap[id] {
			if c.svcOpen[sid] && !c.disposeSent[key] {
				c.fail("service-cancel-answered-while-build-running", "the response to cancel (#%d, key %d) arrived while callback request #%d of that context, received before the cancel was sent, still waits for the host's answer: the build it belongs to cannot have ended", id, key, sid)
			}
		}
		if len(c.cancelSnap[id]) > 0 {
			c.cancelDuringCallback++
		}
	case strings.HasPrefix(desc, "rebuild-after-dispose"):
		if _, ok := m["error"]; !ok {
			c.fail("service-work-after-dispose", "rebuild on a key whose dispose had already been answered succeeded: %v", m)
		}
	case strings.HasPrefix(desc, "dispose-ready"):
		// only a dispose sent after the context existed is known to have disposed it
		var key int
		fmt.Sscanf(desc, "dispose-ready key=%d", &key)
		c.disposedAck[key] = true
	}
}

// pump reads until every outstanding request of ours is answered (or the stream ends).
func (c *svcClient) pump(all bool) bool {
	if all {
		c.hold = false
	}
	for c.viol == nil && len(c.outstanding) > 0 {
		b, got, ok := c.st.TryRecv()
		if !ok {
			return false
		}
		if got {
			c.handle(b)
			continue
		}
		if len(c.deferred) > 0 && !c.hold {
			c.flushDeferred()
			continue
		}
		if !all {
			return true
		}
		b, ok = c.st.Recv()
		if !ok {
			return false
		}
		c.handle(b)
	}
	if !c.hold {
		c.flushDeferred()
	}
	return true
}

func scenarioC20Service(rc *RunCtx) *Violation {
	g := rc.G
	p := GenProject(g, "/p")
	p.Trim(6)
	for _, m := range p.Mods {
		m.Feat &^= FeatWarn | FeatSourceMapComment
	}
	d := newDisk(g)
	p.WriteTo(d, false)
	abrupt := g.n(4) == 0 // close stdin at an arbitrary point instead of gracefully
	st := &verifsim.Stdio{Frag: verifsim.NewTape(uint64(g.n(1<<30)), 1<<16)}
	c := &svcClient{st: st, g: g, outstanding: map[uint32]string{}, responses: map[uint32]interface{}{}, svcOpen: map[uint32]bool{}, svcKey: map[uint32]int{}, cancelSnap: map[uint32][]uint32{}, disposeSent: map[int]bool{}, disposedAck: map[int]bool{}, ctxReady: map[int]bool{}, root: p.Root}

	entries := []interface{}{}
	for _, e := range p.EntryPaths() {
		entries = append(entries, []interface{}{"", e})
	}
	plugins := func() []interface{} {
		return []interface{}{map[string]interface{}{
			"name": "hostplugin", "onStart": true, "onEnd": g.n(2) == 0,
			"onResolve": []interface{}{map[string]interface{}{"id": 1, "filter": ".*", "namespace": ""}},
			"onLoad":    []interface{}{map[string]interface{}{"id": 2, "filter": "\\.js$", "namespace": ""}},
		}}
	}
	buildReq := func(key int, context bool, withPlugins bool) map[string]interface{} {
		m := map[string]interface{}{
			"command": "build", "key": key, "entries": entries, "write": false, "context": context,
			"flags":         []interface{}{"--bundle", "--outdir=out", "--log-level=silent", "--metafile", "--external:react", "--external:react/jsx-runtime"},
			"stdinContents": nil, "stdinResolveDir": nil, "absWorkingDir": p.Root, "nodePaths": []interface{}{},
		}
		if withPlugins {
			m["plugins"] = plugins()
		}
		return m
	}

	nSteps := 2 + g.n(8)
	var desc []string
	var httpWG sync.WaitGroup
	var httpResults []string
	svcReturned := false
	var cutAt int = -1
	if abrupt {
		cutAt = g.n(nSteps + 1)
	}
	s := rc.Sim(SimOpts{Disk: d, Stdio: st, MaxSteps: 4000000}, func() {
		var wg sync.WaitGroup
		wg.Add(1)
		verifsim.Go(func() {
			defer wg.Done()
			verifsvc.RunService(false)
			svcReturned = true
			st.CloseOut()
		})
		key := 1
		var contexts []int
		served := false
		watching := map[int]bool{}
		for step := 0; step < nSteps && c.viol == nil; step++ {
			if step == cutAt {
				break
			}
			if g.n(6) == 0 {
				c.hold = !c.hold
				desc = append(desc, fmt.Sprintf("hold=%v", c.hold))
				if !c.hold {
					c.flushDeferred()
				}
			}
			switch g.n(17) {
			case 15, 16:
				// a build that nobody asked for over the protocol (started by the watcher or by
				// the dev server) is held inside a host callback; then the host cancels
				if len(contexts) > 0 && !abrupt {
					k := contexts[g.n(len(contexts))]
					if c.disposeSent[k] {
						break
					}
					c.pump(true)
					c.hold = true
					if !watching[k] {
						watching[k] = true
						c.request(fmt.Sprintf("watch key=%d", k), map[string]interface{}{"command": "watch", "key": k, "delay": watchDelays[g.n(3)]})
					}
					m := p.Mods[0]
					m.Version++
					d.PutFile(p.Root+"/"+m.Path, []byte(p.RenderModule(m)), false)
					verifsim.Sleep(800 * time.Millisecond)
					c.pump(false) // callbacks of the watcher's build arrive and are held
					c.request(fmt.Sprintf("cancel key=%d", k), map[string]interface{}{"command": "cancel", "key": k})
					verifsim.Sleep(50 * time.Millisecond)
					c.pump(false)
					desc = append(desc, fmt.Sprintf("watch+edit+hold+cancel(%d)", k))
					c.pump(true) // releases the held answers
				}
			case 10, 12, 13, 14:
				// burst: several operations on one context sent back to back, without
				// waiting for any response in between (rebuild, cancel, dispose, watch ...)
				if len(contexts) > 0 {
					k := contexts[g.n(len(contexts))]
					n := 2 + g.n(3)
					var names []string
					for i := 0; i < n; i++ {
						op := []string{"rebuild", "cancel", "dispose", "rebuild", "cancel"}[g.n(5)]
						if i == 0 || (op == "dispose" && i < n-1) {
							op = "rebuild" // a burst starts with a rebuild; dispose only comes last
						}
						name := op
						if op == "dispose" && c.ctxReady[k] {
							name = "dispose-ready"
						}
						if op == "rebuild" && c.disposedAck[k] {
							name = "rebuild-after-dispose"
						}
						c.request(fmt.Sprintf("%s key=%d", name, k), map[string]interface{}{"command": op, "key": k})
						names = append(names, op)
					}
					desc = append(desc, fmt.Sprintf("burst(%d:%s)", k, strings.Join(names, "+")))
					rc.Probe("service_burst")
				}
			case 11:
				// serve over the protocol, with request notifications; a second client task
				// fetches pages over the simulated network meanwhile
				if len(contexts) > 0 && !served {
					k := contexts[g.n(len(contexts))]
					served = true
					c.request(fmt.Sprintf("serve key=%d", k), map[string]interface{}{"command": "serve", "key": k, "host": "127.0.0.1", "onRequest": g.n(3) != 0})
					desc = append(desc, fmt.Sprintf("serve(%d)", k))
					nGets := 1 + g.n(3)
					var gaps []time.Duration
					for i := 0; i < nGets; i++ {
						gaps = append(gaps, []time.Duration{80 * time.Millisecond, 400 * time.Millisecond, time.Second}[g.n(3)])
					}
					httpWG.Add(1)
					verifsim.Go(func() {
						defer httpWG.Done()
						for _, gap := range gaps {
							verifsim.Sleep(gap)
							res := httpOnce(8000, "GET", "/m0.js", 0)
							httpResults = append(httpResults, res)
						}
					})
				}
			case 0, 1:
				c.request(fmt.Sprintf("build key=%d", key), buildReq(key, false, g.n(2) == 0))
				desc = append(desc, "build")
				key++
			case 2, 3:
				c.request(fmt.Sprintf("context key=%d", key), buildReq(key, true, g.n(2) == 0))
				contexts = append(contexts, key)
				desc = append(desc, fmt.Sprintf("context(%d)", key))
				key++
			case 4, 5:
				if len(contexts) > 0 {
					k := contexts[g.n(len(contexts))]
					if c.disposedAck[k] {
						c.request(fmt.Sprintf("rebuild-after-dispose key=%d", k), map[string]interface{}{"command": "rebuild", "key": k})
					} else {
						c.request(fmt.Sprintf("rebuild key=%d", k), map[string]interface{}{"command": "rebuild", "key": k})
					}
					desc = append(desc, fmt.Sprintf("rebuild(%d)", k))
				}
			case 6:
				if len(contexts) > 0 {
					k := contexts[g.n(len(contexts))]
					c.request(fmt.Sprintf("cancel key=%d", k), map[string]interface{}{"command": "cancel", "key": k})
					desc = append(desc, fmt.Sprintf("cancel(%d)", k))
				}
			case 7:
				c.request("transform", map[string]interface{}{"command": "transform", "flags": []interface{}{"--loader=ts", "--minify"}, "inputFS": false, "input": []byte("let x: number = 1 + 2; export { x }")})
				desc = append(desc, "transform")
			case 8:
				switch g.n(4) {
				case 0:
					c.request("bogus", map[string]interface{}{"command": "frobnicate"})
				case 1:
					c.request("resolve-inactive", map[string]interface{}{"command": "resolve", "key": 9999, "path": "./x"})
				case 2:
					c.request("format-msgs", map[string]interface{}{"command": "format-msgs", "isWarning": g.n(2) == 0, "messages": []interface{}{map[string]interface{}{"id": "", "pluginName": "", "text": "hello", "location": nil, "notes": []interface{}{}, "detail": -1}}})
				case 3:
					c.request("analyze-metafile", map[string]interface{}{"command": "analyze-metafile", "metafile": `{"inputs":{},"outputs":{}}`, "color": false, "verbose": false})
				}
				desc = append(desc, "misc")
				if len(contexts) > 0 && !abrupt && g.n(2) == 0 {
					// (graceful sessions only: a watching context that nobody disposes polls forever)
					k := contexts[g.n(len(contexts))]
					c.request(fmt.Sprintf("watch key=%d", k), map[string]interface{}{"command": "watch", "key": k, "delay": watchDelays[g.n(len(watchDelays))]})
					watching[k] = true
					desc = append(desc, fmt.Sprintf("watch(%d)", k))
					// an edit that a watching context will pick up
					m := p.Mods[0]
					m.Version++
					d.PutFile(p.Root+"/"+m.Path, []byte(p.RenderModule(m)), false)
					verifsim.Sleep(300 * time.Millisecond)
				}
			case 9:
				if len(contexts) > 0 {
					k := contexts[g.n(len(contexts))]
					name := "dispose"
					if c.ctxReady[k] {
						name = "dispose-ready"
					}
					c.request(fmt.Sprintf("%s key=%d", name, k), map[string]interface{}{"command": "dispose", "key": k})
					desc = append(desc, fmt.Sprintf("dispose(%d)", k))
				}
			}
			if g.n(3) == 0 {
				c.pump(true) // barrier: wait for everything so far
			} else {
				c.pump(false)
			}
		}
		if !abrupt {
			// graceful end: everything answered, every context disposed, then EOF
			c.pump(true)
			for _, k := range contexts {
				c.request(fmt.Sprintf("dispose key=%d", k), map[string]interface{}{"command": "dispose", "key": k})
			}
			c.pump(true)
			st.CloseIn()
		} else {
			// abrupt end: possibly in the middle of a packet
			if g.n(2) == 0 {
				pkt := encPacket(c.nextID, true, map[string]interface{}{"command": "transform", "flags": []interface{}{}, "inputFS": false, "input": []byte("1+1")})
				st.Send(pkt[:1+g.n(len(pkt)-1)])
			}
			st.CloseIn()
			c.closed = true
		}
		// drain whatever the service still writes until its loop returns
		for c.viol == nil {
			b, ok := st.Recv()
			if !ok {
				break
			}
			c.handle(b)
			c.flushDeferred()
		}
		verifsim.Yield("harness", "wait<")
		wg.Wait()
		httpWG.Wait()
		verifsim.Yield("harness", "wait>")
	})
	for _, r := range httpResults {
		rc.Probe("service_serve_http_" + strings.Fields(r)[0])
	}
	rc.Stats.Builds++
	rc.Note(fmt.Sprintf("svc:%s abrupt=%v cut=%d", strings.Join(desc, ","), abrupt, cutAt))
	rc.Sample("service_session", map[string]interface{}{"requests": desc, "abrupt_eof": abrupt, "log_head": head(c.log, 40), "bytes_in": st.BytesIn, "bytes_out": st.BytesOut, "fragmented_sends": st.ShortReads})
	rc.Probe("service_session")
	rc.Stats.Probes["service_requests_from_service"] += c.svcRequests
	rc.Stats.Probes["service_cancel_while_callback_pending"] += c.cancelDuringCallback
	rc.Stats.Probes["short_stdin_read"] += st.ShortReads
	rc.Stats.Probes["coalesced_stdin_read"] += st.Coalesced
	rc.Stats.Faults["stdio_fragmented_read"] += st.ShortReads
	rc.Stats.Faults["stdio_coalesced_read"] += st.Coalesced
	if abrupt {
		rc.Probe("service_abrupt_eof")
		rc.Stats.Faults["stdio_eof_at_arbitrary_offset"]++
	}
	if c.viol != nil {
		c.viol.Detail += "; session: " + strings.Join(head(c.log, 60), " | ")
		return c.viol
	}
	if s.Panic != nil && svcReturned && strings.Contains(panicText(s), "main bubble goroutine has exited") {
		// The service's writer goroutine ranges over a channel that is never closed: it
		// is meant to die with the process when main returns. Not a leak of a build.
		rc.Probe("service_writer_goroutine_left_at_exit")
	} else if s.Panic != nil {
		txt := panicText(s)
		// After an abrupt EOF the service may legitimately wait forever for answers
		// the host can no longer send, or for contexts nobody disposed.
		if abrupt && (strings.Contains(txt, "deadlock") || strings.Contains(txt, "step budget")) {
			rc.Probe("service_waits_after_abrupt_eof")
			return nil
		}
		v := abnormal(s, "stdio service session "+strings.Join(desc, ","))
		v.Detail += "; session: " + strings.Join(head(c.log, 60), " | ")
		return v
	}
	if !abrupt {
		if !svcReturned {
			return &Violation{Class: "service-did-not-exit", Key: "graceful", Detail: "the service loop did not return after a graceful end of the session: " + strings.Join(head(c.log, 60), " | ")}
		}
		if len(c.outstanding) > 0 {
			var ids []string
			for id, dsc := range c.outstanding {
				ids = append(ids, fmt.Sprintf("#%d %s", id, dsc))
			}
			sort.Strings(ids)
			return &Violation{Class: "service-request-unanswered", Key: "graceful", Detail: fmt.Sprintf("requests never answered although the session ended gracefully: %v; session: %s", ids, strings.Join(head(c.log, 60), " | "))}
		}
		rc.Probe("service_all_requests_answered_once")
	}
	return nil
}

func head(xs []string, n int) []string {
	if len(xs) > n {
		return xs[:n]
	}
	return xs
}
