package harness

// placeholder until the stdio-service part is built
func scenarioC20Service(rc *RunCtx) *Violation { return nil }
