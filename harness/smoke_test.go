package harness

import (
	"fmt"
	"testing"

	"github.com/evanw/esbuild/pkg/api"
	"github.com/evanw/esbuild/pkg/verifsim"
)

func smokeProject(d *verifsim.Disk) {
	w := func(name, content string) { d.PutFile("/p/"+name, []byte(content), false) }
	w("src/a.js", `import {s} from "./s"; import {t} from "./t.ts"; import("./c"); import("./d"); import j from "./data.json"; import "./style.css"; console.log("A", s, t, j)`)
	w("src/b.js", `import {s} from "./s"; import {u} from "pkg"; import("./d"); console.log("B", s, u)`)
	w("src/s.js", `export let s = 1; export function f(){ return s }`)
	w("src/t.ts", `export enum E { X = 1, Y }; export const t: number = E.Y`)
	w("src/c.js", `import {s} from "./s"; export let c = s + 1`)
	w("src/d.js", `import {c} from "./c"; export let d = c + 1`)
	w("src/data.json", `{"k": [1,2,3]}`)
	w("src/style.css", `@import "./other.css"; body { color: red }`)
	w("src/other.css", `a { color: blue }`)
	w("node_modules/pkg/package.json", `{"name":"pkg","main":"index.js","sideEffects":false}`)
	w("node_modules/pkg/index.js", `export let u = 42; export let unused = 1`)
	w("package.json", `{"type":"module"}`)
}

func TestSmoke(t *testing.T) {
	opts := api.BuildOptions{
		AbsWorkingDir: "/p", EntryPoints: []string{"src/a.js", "src/b.js"}, Bundle: true, Splitting: true, Format: api.FormatESModule,
		Outdir: "out", Write: true, LogLevel: api.LogLevelSilent, Metafile: true, Sourcemap: api.SourceMapLinked,
		MinifyIdentifiers: true,
	}
	for seed := uint64(0); seed < 4; seed++ {
		d := verifsim.NewDisk()
		smokeProject(d)
		var r api.BuildResult
		s := verifsim.Run(t, verifsim.Config{Sched: verifsim.NewTape(seed, 1<<16), Policy: int(seed % verifsim.NumPolicies), Disk: d}, func() {
			r = api.Build(opts)
		})
		fmt.Printf("seed %d: steps=%d choice=%d maxrun=%d tasks=%d hash=%x panic=%v errors=%d outputs=%d disklog=%d simtime=%v\n",
			seed, s.Steps, s.ChoicePoints, s.MaxRunnable, s.Tasks, s.TraceHash, s.Panic, len(r.Errors), len(r.OutputFiles), d.LogLen(), s.SimTime)
		for _, e := range r.Errors {
			fmt.Println("  error:", e.Text)
		}
		if seed == 0 {
			paths, _ := d.Files()
			fmt.Println(paths)
			for _, op := range d.TakeLog()[:30] {
				fmt.Printf("   %+v\n", op)
			}
		}
	}
}
