package harness

// C17 through the command line front end: cli.Run on the simulated disk (the code that
// writes --metafile and --mangle-cache files lives in pkg/cli).

import (
	"fmt"
	"path"
	"strings"

	"github.com/evanw/esbuild/pkg/cli"
	"github.com/evanw/esbuild/pkg/verifsim"
)

func (o *OptModel) cliArgs(p *Project) []string {
	a := append([]string{}, p.EntryPaths()...)
	a = append(a, "--log-level=silent", "--outdir="+outdirT[o.Outdir])
	if o.Bundle {
		a = append(a, "--bundle", "--external:react", "--external:react/jsx-runtime", "--external:react/jsx-dev-runtime")
	}
	if o.Splitting {
		a = append(a, "--splitting")
	}
	a = append(a, "--format="+[]string{"esm", "cjs", "iife"}[o.Format])
	a = append(a, "--platform="+[]string{"browser", "node", "neutral"}[o.Platform])
	if o.MinifyWS {
		a = append(a, "--minify-whitespace")
	}
	if o.MinifyIDs {
		a = append(a, "--minify-identifiers")
	}
	if o.MinifySyn {
		a = append(a, "--minify-syntax")
	}
	switch o.Sourcemap {
	case 1:
		a = append(a, "--sourcemap=linked")
	case 2:
		a = append(a, "--sourcemap=inline")
	case 3:
		a = append(a, "--sourcemap=external")
	case 4:
		a = append(a, "--sourcemap=both")
	}
	if s := entryNameT[o.EntryNames]; s != "" {
		a = append(a, "--entry-names="+s)
	}
	if s := chunkNameT[o.ChunkNames]; s != "" {
		a = append(a, "--chunk-names="+s)
	}
	if s := assetNameT[o.AssetNames]; s != "" {
		a = append(a, "--asset-names="+s)
	}
	switch o.Outbase {
	case 1:
		a = append(a, "--outbase=src")
	case 2:
		a = append(a, "--outbase=.")
	case 3:
		a = append(a, "--outbase=src/lib")
	}
	switch o.OutExt {
	case 1:
		a = append(a, "--out-extension:.js=.mjs")
	case 2:
		a = append(a, "--out-extension:.js=.js")
	}
	a = append(a, "--loader:.png="+[]string{"file", "dataurl", "binary", "copy", "base64"}[o.BinLoader])
	a = append(a, "--loader:.txt="+[]string{"text", "file", "copy"}[o.TxtLoader])
	if o.AllowOverwrite {
		a = append(a, "--allow-overwrite")
	}
	a = append(a, "--legal-comments="+[]string{"eof", "none", "inline", "eof", "linked", "external"}[o.Legal])
	if o.Format == 2 {
		a = append(a, "--global-name=GlobalLib")
	}
	return a
}

func scenarioC17CLI(rc *RunCtx) *Violation {
	g := rc.G
	p := GenProject(g, "/p")
	o := GenOptions(g, p)
	o.Inject = false
	o.Outdir = []int{0, 2, 4, 1, 3}[g.n(5)]
	o.AllowOverwrite = g.chance(15)
	if g.chance(50) {
		o.EntryNames = []int{0, 1}[g.n(2)]
		o.AssetNames = []int{2, 3, 0}[g.n(3)]
	}
	// sometimes the project is broken: a failed build must write nothing, not even the metafile
	broken := g.chance(25)
	if broken {
		p.Mods[g.n(len(p.Mods))].Broken = true
	}
	d := newDisk(g)
	d.Cwd = p.Root
	p.WriteTo(d, false)
	args := o.cliArgs(p)
	metaPath := []string{"meta.json", "dist/meta/meta.json", "out/meta.json"}[g.n(3)]
	args = append(args, "--metafile="+metaPath)
	manglePath := ""
	if o.Mangle {
		manglePath = []string{"mangle.json", "cache/mangle.json"}[g.n(2)]
		d.PutFile(p.Root+"/"+manglePath, []byte(`{"_common_": "Z"}`), false)
		args = append(args, "--mangle-props=^_.*_$", "--mangle-cache="+manglePath)
	}
	before := snapshotFiles(d)
	d.TakeLog()
	code := -1
	s := rc.Sim(SimOpts{Disk: d}, func() { code = cli.Run(args) })
	rc.Stats.Builds++
	rc.Stats.SimBuilds++
	rc.Note(fmt.Sprintf("cli proj:%x args:%s", fnv64(fmt.Sprint(describeProject(p, o))), strings.Join(args, " ")))
	rc.Sample("cli_args", args)
	rc.Probe("cli_run")
	if s.Panic != nil {
		rc.Probe("history_aborted")
		return nil
	}
	log := d.TakeLog()
	after := snapshotFiles(d)
	viol := func(class, f string, a ...interface{}) *Violation {
		return &Violation{Class: "cli-" + class, Key: class, Detail: fmt.Sprintf(f, a...) + "; args: " + strings.Join(args, " ")}
	}
	metaAbs := absOf(p.Root, metaPath)
	mangleAbs := ""
	if manglePath != "" {
		mangleAbs = absOf(p.Root, manglePath)
	}
	var writes []verifsim.Op
	for _, op := range log {
		if op.Kind == "writefile" || op.Kind == "remove" {
			writes = append(writes, op)
		}
	}
	if code != 0 {
		rc.Probe("cli_failed_build")
		for _, op := range writes {
			return viol("write-after-error", "cli.Run returned %d (build failed) but performed %s %s", code, op.Kind, op.Path)
		}
		for k, v := range before {
			if after[k] != v {
				return viol("write-after-error", "cli.Run returned %d but %s changed", code, k)
			}
		}
		return nil
	}
	rc.Probe("cli_successful_build")
	mfText, ok := after[metaAbs]
	if !ok {
		return viol("metafile-missing", "successful build but the metafile %s was not written", metaAbs)
	}
	mf, err := ParseMetafile(mfText)
	if err != nil {
		return viol("metafile-invalid", "metafile on disk is not valid JSON: %v", err)
	}
	outputs := map[string]int{}
	for k, v := range mf.Outputs {
		outputs[absOf(p.Root, k)] = v.Bytes
	}
	inputs := map[string]bool{}
	for k := range mf.Inputs {
		if !strings.HasPrefix(k, "<") && !strings.Contains(k, ":") {
			inputs[absOf(p.Root, k)] = true
		}
	}
	for _, op := range writes {
		if op.Kind == "remove" {
			return viol("removed-file", "a one-shot CLI build removed %s", op.Path)
		}
		if op.Path == metaAbs || op.Path == mangleAbs {
			continue
		}
		if _, ok := outputs[op.Path]; !ok {
			return viol("unreported-write", "the build wrote %s which the metafile does not list as an output (outputs: %v)", op.Path, keysOfInt(outputs))
		}
		if inputs[op.Path] && !o.AllowOverwrite {
			return viol("clobbered-input", "the build wrote %s, which the metafile lists as an input, without --allow-overwrite", op.Path)
		}
	}
	for pth, n := range outputs {
		c, ok := after[pth]
		if !ok {
			return viol("missing-on-disk", "metafile lists output %s which is not on disk", pth)
		}
		if len(c) != n {
			return viol("wrong-size-on-disk", "%s has %d bytes on disk, the metafile says %d", pth, len(c), n)
		}
	}
	for k, v := range before {
		if a, ok := after[k]; (!ok || a != v) && k != metaAbs && k != mangleAbs {
			if _, isOut := outputs[k]; !isOut {
				return viol("foreign-change", "file %s changed or vanished although it is not an output", k)
			}
		}
	}
	_ = path.Base
	return nil
}

func keysOfInt(m map[string]int) []string {
	var ks []string
	for k := range m {
		ks = append(ks, k)
	}
	return ks
}
