package harness

import (
	"fmt"
	"os"
	"regexp"
	"strings"
	"sync"
	"time"

	"github.com/evanw/esbuild/pkg/api"
	"github.com/evanw/esbuild/pkg/verifsim"
)

// parallel runs fs[0] on the calling task and the others as client tasks of the same
// bubble, and returns when all have finished.
func parallel(fs ...func()) {
	var wg sync.WaitGroup
	for _, f := range fs[1:] {
		f := f
		wg.Add(1)
		verifsim.Go(func() {
			defer wg.Done()
			f()
		})
	}
	fs[0]()
	verifsim.Yield("harness", "wait<")
	wg.Wait()
	verifsim.Yield("harness", "wait>")
}

var granChoices = []time.Duration{1, time.Millisecond, time.Second, 2 * time.Second}

// newDisk draws the disk's configuration knobs.
func newDisk(g G) *verifsim.Disk {
	d := verifsim.NewDisk()
	d.Salt = uint64(g.n(1 << 30))
	return d
}

var adversarialKeys = [][]byte{
	nil,
	{0, 0, 0, 0, 0, 0, 0, 0, 0, 0, 0, 0},                                     // AAAAAAAAAAAAAAAA
	{0xff, 0xff, 0xff, 0xff, 0xff, 0xff, 0xff, 0xff, 0xff, 0xff, 0xff, 0xff}, // ________________
	{0xfb, 0xef, 0xbe, 0xfb, 0xef, 0xbe, 0xfb, 0xef, 0xbe, 0xfb, 0xef, 0xbe}, // ----------------
	{0x69, 0xb7, 0x1d, 0x79, 0xf8, 0x21, 0x8a, 0x39, 0x25, 0x9a, 0x7a, 0x29}, // abcdefghijklmnop
}

func describeProject(p *Project, o *OptModel) map[string]interface{} {
	var mods []string
	for _, m := range p.Mods {
		var imps []string
		for _, im := range m.Imports {
			if im.Target >= 0 {
				imps = append(imps, fmt.Sprintf("%d/%d", im.Target, im.Style))
			} else {
				imps = append(imps, im.Pkg)
			}
		}
		mods = append(mods, fmt.Sprintf("%s feat=%x imports=[%s]", m.Path, m.Feat, strings.Join(imps, " ")))
	}
	return map[string]interface{}{"modules": mods, "entries": p.EntryPaths(), "packages": len(p.Pkgs), "options": o.String()}
}

func hasErrors(r api.BuildResult) bool { return len(r.Errors) > 0 }

func errTexts(r api.BuildResult) string {
	var out []string
	for _, e := range r.Errors {
		out = append(out, e.Text)
	}
	return strings.Join(out, " | ")
}

var debugOn = os.Getenv("VERIF_DEBUG") != ""
var numRe = regexp.MustCompile(`[0-9]+`)

func debugErr(rc *RunCtx, r *BuildRec) {
	if debugOn && len(r.Res.Errors) > 0 {
		rc.Probe("err: " + trunc(numRe.ReplaceAllString(r.Res.Errors[0].Text, "N"), 90))
	}
}

// debugDump prints an output file when VERIF_DEBUG is set (used while diagnosing).
func debugDump(rec *BuildRec, p string) {
	if !debugOn {
		return
	}
	for _, f := range rec.Res.OutputFiles {
		if f.Path == p {
			fmt.Printf("----- %s -----\n%s\n-----\n", p, f.Contents)
		}
	}
	for k, v := range rec.Before {
		if strings.HasSuffix(k, ".json") || strings.HasSuffix(k, "m14/index.js") {
			fmt.Printf("----- input %s -----\n%s\n", k, v)
		}
	}
}

// dumpProject writes the generated project and its options to VERIF_DUMP_DIR (used to
// reproduce a finding against the un-instrumented tree with a plain Go program).
func dumpProject(p *Project, o *OptModel) {
	dir := os.Getenv("VERIF_DUMP_DIR")
	if dir == "" {
		return
	}
	for k, v := range p.Render() {
		f := dir + "/" + k
		os.MkdirAll(f[:strings.LastIndex(f, "/")], 0755)
		os.WriteFile(f, []byte(v), 0644)
	}
	os.WriteFile(dir+"/OPTIONS.txt", []byte(fmt.Sprintf("%+v\nentries=%v\n", *o, p.EntryPaths())), 0644)
}
