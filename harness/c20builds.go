package harness

// C20, part (d): plain builds under the race detector. The context and service
// scenarios keep their projects and options small; here the full option space of the
// generator (minification, mangling, source maps, splitting, CSS, injected files, all
// loaders ...) is built by two or three concurrent api.Build / api.Transform calls in one
// bubble under seeded schedules, so that data races inside the parallel scan, link,
// rename and print phases are reported by the race detector with a replayable tape.

import (
	"fmt"
	"strings"

	"github.com/evanw/esbuild/pkg/api"
	"github.com/evanw/esbuild/pkg/verifsim"
)

func scenarioC20Builds(rc *RunCtx) *Violation {
	g := rc.G
	p := GenProject(g, "/p")
	o := GenOptions(g, p)
	o.AllowOverwrite = false
	o.Write = g.chance(30)
	if g.n(3) == 0 {
		// injected files give every module implicit imports that are linked across files,
		// also into modules that end up wrapped or in other chunks
		o.Bundle, o.Inject = true, true
		if g.n(4) != 0 {
			o.Format, o.Splitting = 0, true
		}
		if g.n(4) != 0 {
			o.MinifyIDs = false
		}
		// several CommonJS modules: they are wrapped in closures, and their module scopes
		// are renamed as nested scopes
		for _, m := range p.Mods[1:] {
			if !isJS(m.Kind) || m.Kind == "cjs" || g.n(2) == 0 || strings.Contains(m.Path, "/twin/") {
				continue
			}
			m.Path = strings.TrimSuffix(m.Path, "."+m.Kind) + ".cjs"
			m.Kind = "cjs"
			for i := range m.Imports {
				if !isDynamic(m.Imports[i].Style) {
					m.Imports[i].Style = ImpRequire
				}
			}
			for _, other := range p.Mods {
				for i := range other.Imports {
					if other.Imports[i].Target == m.ID && other.Imports[i].Style == ImpReexportStar {
						other.Imports[i].Style = ImpNamed
					}
				}
			}
		}
	}
	if o.Inject {
		p.Extra["src/inject.js"] = "export let injected = 'INJ';\nconsole.log('inject');\n"
	}
	if g.n(4) == 0 {
		o.Bundle = true
		p.AddCSSSite(g)
	}
	d := newDisk(g)
	p.WriteTo(d, false)
	dumpProject(p, o)
	p2 := GenProject(g, "/q")
	o2 := GenOptions(g, p2)
	o2.Inject = false
	o2.Write = false
	o2.Pure = g.n(4)
	p2.WriteTo(d, false)
	nSame := 1 + g.n(2)
	rc.Note(fmt.Sprintf("builds proj:%x other:%x same:%d", fnv64(fmt.Sprint(describeProject(p, o))), fnv64(fmt.Sprint(describeProject(p2, o2))), nSame))
	rc.Sample("project", describeProject(p, o))
	var results []api.BuildResult
	results = make([]api.BuildResult, nSame+1)
	var tr api.TransformResult
	s := rc.Sim(SimOpts{Disk: d, MaxSteps: 6000000}, func() {
		var fs []func()
		for i := 0; i < nSame; i++ {
			i := i
			fs = append(fs, func() { results[i] = api.Build(o.Build(p)) })
		}
		fs = append(fs, func() { results[nSame] = api.Build(o2.Build(p2)) })
		fs = append(fs, func() {
			tr = api.Transform("enum E { A = 1, B }\nexport let x: number = E.B ?? 2\n", api.TransformOptions{Loader: api.LoaderTS, MinifySyntax: true, Sourcemap: api.SourceMapInline, LogLevel: api.LogLevelSilent})
		})
		parallel(fs...)
	})
	rc.Stats.Builds += nSame + 1
	rc.Stats.SimBuilds += nSame + 1
	if v := abnormal(s, "concurrent plain builds"); v != nil {
		return v
	}
	for i, r := range results {
		for _, m := range append(append([]api.Message{}, r.Errors...), r.Warnings...) {
			if strings.HasPrefix(m.Text, "panic:") || strings.Contains(m.Text, "Internal error") {
				return &Violation{Class: "internal-error-diagnostic", Key: "internal-error", Detail: fmt.Sprintf("build %d reports %q", i, m.Text)}
			}
		}
	}
	if len(tr.Errors) > 0 {
		return &Violation{Class: "transform-failed-next-to-builds", Key: "transform", Detail: fmt.Sprintf("a trivial transform running next to the builds failed: %s", tr.Errors[0].Text)}
	}
	// two builds of the same inputs in one process must agree (C08's subject; cheap here)
	if nSame == 2 {
		a, b := MakeCanon(results[0], p.Root), MakeCanon(results[1], p.Root)
		if class, detail := a.Diff(b); class != "" && !(strings.HasSuffix(class, "-order") && orderKey(a, b, class) == "locationless-only") {
			return &Violation{Class: "concurrent-twin-builds-differ-" + class, Key: class, Detail: "two concurrent builds of the same inputs and options differ: " + detail}
		}
		rc.Probe("concurrent_twin_builds_equal")
	}
	rc.Probe("plain_builds_under_race_detector")
	_ = verifsim.Active
	return nil
}
