module verif/harness

go 1.26.8

require (
	github.com/anishathalye/porcupine v1.3.0
	github.com/evanw/esbuild v0.0.0
)

require golang.org/x/sys v0.0.0-20220715151400-c0bba94af5f8

replace github.com/evanw/esbuild => /repo
