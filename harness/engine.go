package harness

// The run engine: one integer decides everything. VERIF_SEED + property + run index
// seed the run's generator tape; every decision of the run (project, options, history,
// client operations, fault placement, schedule policies and the seeds of the schedule
// tapes) is a bounded draw from it and is recorded. A replay file holds the recorded
// (minimised) tape; replaying it in a fresh process repeats the run exactly.

import (
	"encoding/json"
	"fmt"
	"os"
	"sort"
	"strings"
	"sync/atomic"
	"testing"
	"time"

	"github.com/evanw/esbuild/pkg/verifsim"
)

type Violation struct {
	Class  string // short, stable class: keys known findings and shrinking
	Detail string
	Key    string // finer key within the class for known-finding matching
}

func (v *Violation) String() string { return v.Class + ": " + v.Detail }

type Stats struct {
	Runs         int
	Builds       int
	SimBuilds    int // builds run under the simulated scheduler
	Steps        int
	ChoicePoints int
	MaxRunnable  int
	SimSeconds   float64
	Faults       map[string]int
	Probes       map[string]int
	DiskOps      map[string]int
	Distinct     map[string]bool // distinct non-trivial run signatures
	Samples      []interface{}
	Violations   int
	Known        map[string]int
	Policies     map[string]int
	WallS        float64
}

func NewStats() *Stats {
	return &Stats{Faults: map[string]int{}, Probes: map[string]int{}, DiskOps: map[string]int{}, Distinct: map[string]bool{}, Known: map[string]int{}, Policies: map[string]int{}}
}

type RunCtx struct {
	T      *testing.T
	G      G
	Stats  *Stats
	Tier   string
	Prop   string
	RunID  string
	sig    []string
	nontrivial bool
	sample map[string]interface{}
}

func (rc *RunCtx) Probe(name string) { rc.Stats.Probes[name]++ }

// Note adds a component to the run's signature (project shape, options, history,
// schedule hash, faults): two runs are "distinct" when their signatures differ.
func (rc *RunCtx) Note(part string) { rc.sig = append(rc.sig, part) }

func (rc *RunCtx) Sample(k string, v interface{}) {
	if rc.sample == nil {
		rc.sample = map[string]interface{}{}
	}
	rc.sample[k] = v
}

var policyNames = []string{"lowest-id", "random", "highest-id", "sticky", "pct", "round-robin", "stall-one-task"}

// SimOpts configures one simulated bubble.
type SimOpts struct {
	Disk      *verifsim.Disk
	Canonical bool // lowest-id schedule, default unique key
	UniqueKey []byte
	MaxSteps  int
	Stdio     *verifsim.Stdio
	StallSites []string // directed exploration: force the stall policy with these sites as the slow ones
	NoLowest  bool // never draw the lowest-id policy (it is the canonical schedule the variant is compared with)
}

// Sim runs root in a bubble; schedule policy and the schedule tape's seed are drawn
// from the run tape unless Canonical.
func (rc *RunCtx) Sim(o SimOpts, root func()) *verifsim.Sim {
	cfg := verifsim.Config{Disk: o.Disk, MaxSteps: o.MaxSteps, UniqueKey: o.UniqueKey, Stdio: o.Stdio}
	if o.Canonical {
		cfg.Policy = verifsim.PolicyLowest
		cfg.Sched = verifsim.ReplayTape(nil)
		cfg.Rand = verifsim.ReplayTape(nil)
	} else {
		cfg.Policy = rc.G.n(verifsim.NumPolicies)
		if len(o.StallSites) > 0 {
			cfg.Policy = verifsim.PolicyStall
			cfg.StallSites = o.StallSites
		}
		if o.NoLowest && cfg.Policy == verifsim.PolicyLowest {
			cfg.Policy = verifsim.PolicyRandom
		}
		cfg.Sched = verifsim.NewTape(uint64(rc.G.n(1<<30)), 1<<20)
		cfg.Rand = verifsim.NewTape(uint64(rc.G.n(1<<30)), 1<<12)
	}
	s := verifsim.Run(rc.T, cfg, root)
	if n := verifsim.LeakedOpenFileSlots; n > 0 && s.Panic == nil {
		// every build of the bubble has returned, yet slots of the open-file limiter (a
		// process-wide resource: 32 leaks and every later build blocks for ever) are taken
		verifsim.LeakedOpenFileSlots = 0
		panic(&Violation{Class: "open-file-slot-leaked", Key: "limiter", Detail: fmt.Sprintf("%d slot(s) of the process-wide open-file limiter were still taken after all builds of the run had returned", n)})
	}
	st := rc.Stats
	st.Steps += s.Steps
	st.ChoicePoints += s.ChoicePoints
	if s.MaxRunnable > st.MaxRunnable {
		st.MaxRunnable = s.MaxRunnable
	}
	st.SimSeconds += s.SimTime.Seconds()
	st.Policies[policyNames[cfg.Policy]]++
	if s.ChoicePoints > 0 {
		rc.nontrivial = true
	}
	rc.Note(fmt.Sprintf("sched:%x", s.TraceHash))
	if o.Disk != nil {
		for i, n := range o.Disk.Fired {
			if n > 0 {
				st.Faults[verifsim.FaultNames[i]] += n
				o.Disk.Fired[i] = 0
			}
		}
		for k, v := range o.Disk.Counts {
			st.DiskOps[k] += v
			delete(o.Disk.Counts, k)
		}
	}
	if rc.sample != nil && rc.sample["schedule_head"] == nil && !o.Canonical {
		var head []string
		for i := 0; i < s.NTrace && i < 40; i++ {
			e := s.Trace[i]
			head = append(head, fmt.Sprintf("t%d@%s:%s", e.Task, e.Site, e.Kind))
		}
		rc.sample["schedule_head"] = head
		rc.sample["schedule_policy"] = policyNames[cfg.Policy]
		rc.sample["schedule_steps"] = s.Steps
	}
	return s
}

func panicText(s *verifsim.Sim) string {
	if s.Panic == nil {
		return ""
	}
	return fmt.Sprint(s.Panic)
}

// ---------- known findings ----------

type KnownFinding struct {
	Property string `json:"property"`
	ID       string `json:"id"`
	Class    string `json:"class"`
	Key      string `json:"key"` // substring that must occur in the violation's Key
	What     string `json:"what"`
	Status   string `json:"status"` // "known" or "fixed"
}

type knownFile struct {
	Findings []KnownFinding `json:"findings"`
	Fixed    []string       `json:"fixed"`
}

func loadKnown(path, prop string) []KnownFinding {
	b, err := os.ReadFile(path)
	if err != nil {
		return nil
	}
	var kf knownFile
	if err := json.Unmarshal(b, &kf); err != nil {
		fmt.Fprintln(os.Stderr, "known-findings.json:", err)
		os.Exit(2)
	}
	var out []KnownFinding
	for _, f := range kf.Findings {
		if f.Property == prop && f.Status != "fixed" {
			out = append(out, f)
		}
	}
	return out
}

func matchKnown(known []KnownFinding, v *Violation) *KnownFinding {
	for i := range known {
		k := &known[i]
		if k.Class == v.Class && (k.Key == "" || strings.Contains(v.Key, k.Key)) {
			return k
		}
	}
	return nil
}

// ---------- replay files ----------

type ReplayFile struct {
	Property string   `json:"property"`
	Seed     int64    `json:"seed"`
	Run      int      `json:"run"`
	Tier     string   `json:"tier"`
	Class    string   `json:"violation_class"`
	Key      string   `json:"violation_key"`
	Detail   string   `json:"detail"`
	Tape     []uint32 `json:"tape"`
	TapeLen0 int      `json:"tape_len_before_minimisation"`
	Repeat   int      `json:"repeat"` // replays needed at most (map-order caused findings)
	TreeHash string   `json:"instrumented_tree_hash"`
	Note     string   `json:"note"`
	FromSeed bool     `json:"from_seed"` // no tape recorded (the process died): regenerate it from seed and run
}

type Scenario func(rc *RunCtx) *Violation

func runSeed(seed int64, prop string, run int) uint64 {
	h := uint64(seed)*0x9E3779B97F4A7C15 + uint64(run)*0xC2B2AE3D27D4EB4F
	for _, c := range []byte(prop) {
		h = (h ^ uint64(c)) * 1099511628211
	}
	return h
}

// execTape runs the scenario once from the given tape.
func execTape(t *testing.T, sc Scenario, tape *verifsim.Tape, st *Stats, prop, tier, id string) (v *Violation, rc *RunCtx) {
	rc = &RunCtx{T: t, G: G{tape}, Stats: st, Tier: tier, Prop: prop, RunID: id}
	defer func() {
		if r := recover(); r != nil {
			if hv, ok := r.(*Violation); ok {
				v = hv
				return
			}
			panic(r)
		}
	}()
	before := raceLogSize()
	v = sc(rc)
	if after := raceLogSize(); after > before && v == nil {
		v = &Violation{Class: "data-race", Key: "data-race", Detail: "the race detector reported during this run:\n" + trunc(raceLogTail(after-before), 6000)}
	}
	return
}

// The race detector writes its reports to GORACE's log_path.<pid>; a report that
// appears while a run executes belongs to that run.
func raceLogFile() string {
	for _, f := range strings.Fields(os.Getenv("GORACE")) {
		if strings.HasPrefix(f, "log_path=") {
			return fmt.Sprintf("%s.%d", strings.TrimPrefix(f, "log_path="), os.Getpid())
		}
	}
	return ""
}

func raceLogSize() int64 {
	if f := raceLogFile(); f != "" {
		if st, err := os.Stat(f); err == nil {
			return st.Size()
		}
	}
	return 0
}

func raceLogTail(n int64) string {
	b, err := os.ReadFile(raceLogFile())
	if err != nil {
		return ""
	}
	if int64(len(b)) > n {
		b = b[int64(len(b))-n:]
	}
	return string(b)
}

// shrink minimises a failing tape while the same violation class persists.
func shrink(t *testing.T, sc Scenario, tape []uint32, class, key string, prop, tier string, budget time.Duration) []uint32 {
	deadline := time.Now().Add(budget)
	fails := func(c []uint32) bool {
		if time.Now().After(deadline) {
			return false
		}
		st := NewStats()
		for rep := 0; rep < 2; rep++ {
			v, _ := execTape(t, sc, verifsim.ReplayTape(append([]uint32(nil), c...)), st, prop, tier, "shrink")
			if v != nil && v.Class == class && v.Key == key {
				return true // (same class and key: a candidate must not turn into a different - e.g. a known - finding)
			}
		}
		return false
	}
	cur := append([]uint32(nil), tape...)
	// 1. truncate (the tail reads as zeros)
	for n := len(cur) / 2; n >= 1; n /= 2 {
		for len(cur) > n {
			c := cur[:len(cur)-n]
			if fails(c) {
				cur = append([]uint32(nil), c...)
			} else {
				break
			}
		}
	}
	// 2. zero blocks, then single entries; 3. halve entries
	for pass := 0; pass < 2 && time.Now().Before(deadline); pass++ {
		for blk := 16; blk >= 1; blk /= 2 {
			for i := 0; i+blk <= len(cur); i += blk {
				allZero := true
				for j := i; j < i+blk; j++ {
					if cur[j] != 0 {
						allZero = false
					}
				}
				if allZero {
					continue
				}
				c := append([]uint32(nil), cur...)
				for j := i; j < i+blk; j++ {
					c[j] = 0
				}
				if fails(c) {
					cur = c
				}
			}
		}
		for i := 0; i < len(cur); i++ {
			for cur[i] > 1 {
				c := append([]uint32(nil), cur...)
				c[i] = cur[i] / 2
				if fails(c) {
					cur = c
				} else {
					break
				}
			}
		}
		// drop trailing zeros
		for len(cur) > 0 && cur[len(cur)-1] == 0 {
			cur = cur[:len(cur)-1]
		}
	}
	return cur
}

// ---------- worker ----------

type WorkerOut struct {
	Prop       string                 `json:"prop"`
	Worker     int                    `json:"worker"`
	Stats      *Stats                 `json:"stats"`
	Violations []string               `json:"violations"` // replay paths
	Known      map[string]string      `json:"known"`
	Infra      string                 `json:"infra"`
	Extra      map[string]interface{} `json:"extra"`
}

func envInt(name string, def int) int {
	if s := os.Getenv(name); s != "" {
		var v int
		if _, err := fmt.Sscan(s, &v); err == nil {
			return v
		}
	}
	return def
}

func writeJSON(path string, v interface{}) {
	b, err := json.MarshalIndent(v, "", " ")
	if err != nil {
		panic(err)
	}
	if err := os.WriteFile(path, b, 0644); err != nil {
		panic(err)
	}
}

// RunWorker is the body of TestWorker: it executes runs worker, worker+W, worker+2W ...
// of the property's scenario until the run count or the time budget is reached.
func RunWorker(t *testing.T) {
	prop := os.Getenv("VERIF_PROP")
	tier := os.Getenv("VERIF_TIER")
	if tier == "" {
		tier = "quick"
	}
	seed := int64(envInt("VERIF_SEED", 1))
	worker := envInt("VERIF_WORKER", 0)
	workers := envInt("VERIF_WORKERS", 1)
	maxRuns := envInt("VERIF_RUNS", 50)
	budget := time.Duration(envInt("VERIF_BUDGET_S", 60)) * time.Second
	outPath := os.Getenv("VERIF_OUT")
	replayDir := os.Getenv("VERIF_REPLAY_DIR")
	if replayDir == "" {
		replayDir = "/verif/replays"
	}
	sc, ok := scenarios[prop]
	if !ok {
		fmt.Fprintln(os.Stderr, "unknown property", prop)
		os.Exit(2)
	}
	known := loadKnown(os.Getenv("VERIF_KNOWN"), prop)
	st := NewStats()
	out := &WorkerOut{Prop: prop, Worker: worker, Stats: st, Known: map[string]string{}}
	start := time.Now()
	maxViol := 3
	// When the race detector reports during a bubble, the testing package fails the
	// bubble's T and unwinds this goroutine (runtime.Goexit). Deferred functions still
	// run: record the run in progress as a data-race violation and write the results.
	finished := false
	var curTape *verifsim.Tape
	curRun, curID := 0, ""
	raceBefore := raceLogSize()
	defer func() {
		if finished {
			return
		}
		st.WallS = time.Since(start).Seconds()
		if after := raceLogSize(); after > raceBefore && curTape != nil {
			st.Runs++
			st.Violations++
			rf := ReplayFile{Property: prop, Seed: seed, Run: curRun, Tier: tier, Class: "data-race", Key: "data-race",
				Detail: "the race detector reported during this run:\n" + trunc(raceLogTail(after-raceBefore), 6000),
				Tape: append([]uint32(nil), curTape.Recorded()...), TapeLen0: len(curTape.Recorded()), Repeat: 4, TreeHash: os.Getenv("VERIF_TREE_HASH"),
				Note: "the testing package aborted the worker when the race was reported; the tape is the prefix recorded until then, replay regenerates the rest from the seed", FromSeed: true}
			path := fmt.Sprintf("%s/%s.json", replayDir, curID)
			writeJSON(path, rf)
			out.Violations = append(out.Violations, path)
			fmt.Printf("VIOLATION property=%s replay=%s\n  class=data-race\n", prop, path)
		} else {
			out.Infra = "worker goroutine unwound during run " + curID + " without a race report"
		}
		if outPath != "" {
			writeJSON(outPath, out)
		}
	}()
	// Watchdog (a plain goroutine outside any bubble): if the simulation makes no
	// scheduling progress for a long time, some goroutine is blocked in a way the bubble
	// cannot see (e.g. on a sync primitive the instrumenter does not know). That is an
	// infrastructure problem of this run, reported as such - never a pass, never a violation.
	stallLimit := time.Duration(envInt("VERIF_STALL_S", 90)) * time.Second
	go func() {
		last, lastChange := verifsim.Progress(), time.Now()
		for {
			time.Sleep(2 * time.Second)
			if atomic.LoadInt32(&workerDone) != 0 {
				return
			}
			if p := verifsim.Progress(); p != last {
				last, lastChange = p, time.Now()
			} else if time.Since(lastChange) > stallLimit {
				out.Infra = fmt.Sprintf("simulation stalled for %v during run %s: a goroutine is blocked where the bubble cannot see it (uninstrumented blocking construct?)", stallLimit, curID)
				st.WallS = time.Since(start).Seconds()
				if outPath != "" {
					writeJSON(outPath, out)
				}
				fmt.Println("INFRA: " + out.Infra)
				os.Exit(3)
			}
		}
	}()
	for i := 0; i < maxRuns; i++ {
		if time.Since(start) > budget {
			break
		}
		run := worker + i*workers
		if pf := os.Getenv("VERIF_PROGRESS"); pf != "" {
			os.WriteFile(pf, []byte(fmt.Sprint(run)), 0644)
		}
		tape := verifsim.NewTape(runSeed(seed, prop, run), 1<<16)
		id := fmt.Sprintf("%s-%d-%d", prop, seed, run)
		curTape, curRun, curID = tape, run, id
		raceBefore = raceLogSize()
		v, rc := execTape(t, sc, tape, st, prop, tier, id)
		st.Runs++
		if sl := os.Getenv("VERIF_SIGLOG"); sl != "" {
			// determinism self-test: one line per run with everything that identifies its execution
			f, _ := os.OpenFile(sl, os.O_APPEND|os.O_CREATE|os.O_WRONLY, 0644)
			fmt.Fprintf(f, "%s steps=%d sig=%016x tape=%d viol=%v\n", id, st.Steps, fnv64(strings.Join(rc.sig, "|")), len(tape.Recorded()), v != nil)
			if os.Getenv("VERIF_SIGLOG_PARTS") != "" {
				fmt.Fprintf(f, "   parts: %s\n", strings.Join(rc.sig, " | "))
			}
			f.Close()
		}
		if rc.nontrivial {
			sort.Strings(rc.sig)
			st.Distinct[fmt.Sprintf("%016x", fnv64(strings.Join(rc.sig, "|")))] = true
		}
		if rc.sample != nil && len(st.Samples) < 2 {
			rc.sample["run"] = id
			st.Samples = append(st.Samples, rc.sample)
		}
		if v == nil {
			continue
		}
		if k := matchKnown(known, v); k != nil {
			st.Known[k.ID]++
			if _, seen := out.Known[k.ID]; !seen {
				out.Known[k.ID] = fmt.Sprintf("%s (first seen in run %s: %s)", k.What, id, trunc(v.Detail, 300))
			}
			continue
		}
		st.Violations++
		rec := append([]uint32(nil), tape.Recorded()...)
		min := rec
		if os.Getenv("VERIF_NOSHRINK") == "" && v.Class != "data-race" { // the detector reports each race once per process
			min = shrink(t, sc, rec, v.Class, v.Key, prop, tier, 45*time.Second)
		}
		// re-run the minimised tape to record the detail it produces
		v2, _ := execTape(t, sc, verifsim.ReplayTape(append([]uint32(nil), min...)), NewStats(), prop, tier, id)
		detail := v.Detail
		note := ""
		if v2 != nil && v2.Class == v.Class && v2.Key == v.Key {
			detail = v2.Detail
		} else {
			min = rec
			note = "minimised tape did not reproduce on re-run; original tape kept"
		}
		rf := ReplayFile{Property: prop, Seed: seed, Run: run, Tier: tier, Class: v.Class, Key: v.Key, Detail: trunc(detail, 4000),
			Tape: min, TapeLen0: len(rec), Repeat: 64, TreeHash: os.Getenv("VERIF_TREE_HASH"), Note: note}
		path := fmt.Sprintf("%s/%s.json", replayDir, id)
		writeJSON(path, rf)
		out.Violations = append(out.Violations, path)
		fmt.Printf("VIOLATION property=%s replay=%s\n  class=%s detail=%s\n", prop, path, v.Class, trunc(detail, 600))
		if len(out.Violations) >= maxViol {
			break
		}
	}
	finished = true
	atomic.StoreInt32(&workerDone, 1)
	st.WallS = time.Since(start).Seconds()
	if outPath != "" {
		writeJSON(outPath, out)
	}
}

var workerDone int32

func fnv64(s string) uint64 {
	h := uint64(14695981039346656037)
	for i := 0; i < len(s); i++ {
		h = (h ^ uint64(s[i])) * 1099511628211
	}
	return h
}

func trunc(s string, n int) string {
	if len(s) > n {
		return s[:n] + "…"
	}
	return s
}

// RunReplay replays a replay file; exits 1 (through t.Fail) when the violation shows.
func RunReplay(t *testing.T, path string) {
	b, err := os.ReadFile(path)
	if err != nil {
		fmt.Fprintln(os.Stderr, err)
		os.Exit(2)
	}
	var rf ReplayFile
	if err := json.Unmarshal(b, &rf); err != nil {
		fmt.Fprintln(os.Stderr, err)
		os.Exit(2)
	}
	sc, ok := scenarios[rf.Property]
	if !ok {
		fmt.Fprintln(os.Stderr, "unknown property", rf.Property)
		os.Exit(2)
	}
	reps := rf.Repeat
	if reps < 1 {
		reps = 1
	}
	raceBefore := raceLogSize()
	done := false
	defer func() {
		if !done && raceLogSize() > raceBefore {
			fmt.Printf("VIOLATION property=%s replay=%s\n  reproduced: class=data-race\n%s\n", rf.Property, path, trunc(raceLogTail(raceLogSize()-raceBefore), 3000))
		}
	}()
	for i := 0; i < reps; i++ {
		tape := verifsim.ReplayTape(append([]uint32(nil), rf.Tape...))
		if rf.FromSeed {
			tape = verifsim.NewTape(runSeed(rf.Seed, rf.Property, rf.Run), 1<<16)
		}
		v, _ := execTape(t, sc, tape, NewStats(), rf.Property, rf.Tier, "replay")
		if v != nil {
			fmt.Printf("VIOLATION property=%s replay=%s\n  reproduced on attempt %d: class=%s detail=%s\n", rf.Property, path, i+1, v.Class, trunc(v.Detail, 1500))
			if v.Class != rf.Class {
				fmt.Printf("  note: recorded class was %s\n", rf.Class)
			}
			done = true
			t.Fail()
			return
		}
	}
	done = true
	fmt.Printf("replay of %s: no violation in %d attempt(s)\n", path, reps)
}
