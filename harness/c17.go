package harness

// C17 — builds never clobber inputs; failed builds write nothing (DESIGN §4.4).

import (
	"fmt"
	"strings"

	"github.com/evanw/esbuild/pkg/verifsim"
)

func init() { scenarios["C17"] = scenarioC17 }

func scenarioC17(rc *RunCtx) *Violation {
	if rc.G.n(6) == 0 {
		return scenarioC17CLI(rc)
	}
	g := rc.G
	p := GenProject(g, "/p")
	o := GenOptions(g, p)
	o.Write = !g.chance(12)
	o.AllowOverwrite = g.chance(15)
	// output locations that can coincide with inputs
	o.Outdir = []int{0, 2, 4, 2, 1, 3}[g.n(6)]
	o.OutExt = g.n(3)
	if g.chance(50) {
		o.EntryNames = []int{0, 1, 6}[g.n(3)] // hash-free names
		o.AssetNames = []int{2, 3, 0}[g.n(3)]
	}
	if g.n(5) == 0 {
		// profile: several entry points linked separately (no splitting), where the output of
		// one entry point (x.ts -> x.js) lands exactly on a hand-written x.js that only another
		// entry point imports (with the extension written out)
		var t *Module
		for _, m := range p.Mods {
			for i := range m.Imports {
				if im := &m.Imports[i]; im.Target > 0 && p.Mods[im.Target].Kind == "js" && !p.Mods[im.Target].Deleted && !entryOf(p, im.Target) && !isDynamic(im.Style) && t == nil && entryOf(p, m.ID) {
					t = p.Mods[im.Target]
					im.Spec = "ext"
				}
			}
		}
		if t != nil {
			sp := strings.TrimSuffix(t.Path, ".js") + ".ts"
			v, f := expNames(t)
			p.Extra[sp] = fmt.Sprintf("console.log(\"TWINENTRY%d\");\nexport const %s: any = ['ts'];\nexport function %s(o: any) { return o }\nexport default 0;\n", t.ID, v, f)
			p.ExtraEntries = append(p.ExtraEntries, sp)
			o.Bundle = true
			o.Splitting = false
			o.Outdir, o.Outbase, o.OutExt = 4, 2, 0 // out directory = project root, outbase = root: src/x.ts -> src/x.js
			o.EntryNames = []int{0, 1}[g.n(2)]
			rc.Probe("profile_ts_entry_lands_on_js_input")
		}
	}
	if o.Inject {
		p.Extra["src/inject.js"] = "export let injected = 'INJ';\nconsole.log('inject');\n"
	}
	// a glob entry point: files matching it appear and disappear during the history, so
	// rebuilds of one context add and remove entry points (stale outputs get deleted)
	globEntries := g.chance(60)
	nGlob := 0
	if globEntries {
		nGlob = 1 + g.n(3)
		for i := 0; i < nGlob; i++ {
			p.Extra[fmt.Sprintf("src/entries/e%d.js", i)] = fmt.Sprintf("console.log('ENTRY%d');\nexport const e = %d;\n", i, i)
		}
	}
	symlinkedOutdir := g.n(8) == 0
	if symlinkedOutdir {
		// the output directory is reached through a symbolic link inside the sources that
		// leads back to them: outputs can land on inputs under another name
		o.Outdir = 5
		o.OutExt = g.n(3)
		rc.Probe("profile_outdir_through_symlink")
	}
	d := newDisk(g)
	d.Cwd = p.Root
	if symlinkedOutdir {
		d.MkdirAll(p.Root + "/src")
		d.Symlink(".", p.Root+"/src/outlink")
	}
	d.Gran = granChoices[g.n(len(granChoices))]
	mode := g.n(4) // 0 plain, 1 write faults, 2 cancellation, 3 both
	cfg := HistCfg{Steps: 2 + g.n(6), InPlace: g.n(2) == 1, EditsPerStep: 2, NoSnapshots: true}
	if rc.Tier == "thorough" {
		cfg.Steps += g.n(8)
	}
	faultTape := verifsim.NewTape(uint64(g.n(1<<30)), 1<<14)
	if mode == 1 || mode == 3 {
		cfg.Plan = func(step int) *verifsim.FaultPlan {
			if g.n(3) != 0 {
				return nil
			}
			pl := &verifsim.FaultPlan{Tape: faultTape}
			pl.Rate[verifsim.FWriteErr] = 100 + g.n(300)
			pl.Rate[verifsim.FMkdirErr] = g.n(200)
			pl.Rate[verifsim.FRemoveErr] = g.n(300)
			return pl
		}
	}
	if mode == 2 || mode == 3 {
		cfg.Cancel = func(step int) int {
			if g.n(3) != 0 {
				return -1
			}
			return drawCancel(g)
		}
	}
	initial := map[string]bool{}
	cfg.ExtraEdit = func(step int, pp *Project, dd *verifsim.Disk) string {
		// the user deletes or modifies an output of an earlier build: the next build must
		// put the reported bytes back (it may only skip a write after comparing contents)
		if g.n(4) == 0 {
			model := pp.Render()
			paths, contents := dd.Files()
			var outs []string
			for _, f := range paths {
				rel := strings.TrimPrefix(f, pp.Root+"/")
				if _, isModel := model[rel]; !isModel && !initial[f] && !strings.HasPrefix(contents[f], "-> ") {
					outs = append(outs, f)
				}
			}
			if len(outs) > 0 {
				f := outs[g.n(len(outs))]
				if g.n(2) == 0 {
					dd.RemoveAll(f)
					return "user deletes output " + f
				}
				if g.n(2) == 0 && len(contents[f]) > 0 {
					// same length, other bytes (the size alone does not show the change)
					b := []byte(contents[f])
					b[g.n(len(b))] ^= 1
					dd.PutFile(f, b, true)
					return "user flips a bit of output " + f
				}
				dd.PutFile(f, []byte(contents[f]+"/* tampered */"), true)
				return "user modifies output " + f
			}
		}
		if !globEntries || g.n(2) == 0 {
			return ""
		}
		i := g.n(nGlob + 1)
		k := fmt.Sprintf("src/entries/e%d.js", i)
		if _, ok := pp.Extra[k]; ok && !pp.ExtraDel[k] {
			pp.ExtraDel[k] = true
			dd.RemoveAll(pp.Root + "/" + k)
			return "remove entry " + k
		}
		pp.Extra[k] = fmt.Sprintf("console.log('ENTRY%d');\nexport const e = %d;\n", i, i+step*10)
		delete(pp.ExtraDel, k)
		pp.WriteTo(dd, false)
		return "add entry " + k
	}
	p.WriteTo(d, false)
	if ps, _ := d.Files(); true {
		for _, f := range ps {
			initial[f] = true
		}
	}
	rc.Note(fmt.Sprintf("proj:%x mode:%d", fnv64(fmt.Sprint(describeProject(p, o))), mode))
	// glob entry point through the option model: patch after Build()
	oBuild := *o
	_ = oBuild
	if globEntries {
		p.Extra["__glob__"] = "" // marker consumed by OptModel.Build via the project
		delete(p.Extra, "__glob__")
	}
	globOn = globEntries
	defer func() { globOn = false }()
	recs, s := RunHistory(rc, p, o, d, cfg)
	rc.Sample("project", describeProject(p, o))
	rc.Sample("history", histSample(recs))
	rc.Sample("mode", []string{"plain", "write-faults", "cancellation", "faults+cancellation"}[mode])
	if s.Panic != nil {
		rc.Probe("history_aborted")
		return nil
	}
	ws := &WriteState{Written: map[string]bool{}}
	var hist []string
	for _, r := range recs {
		hist = append(hist, strings.Join(r.Edits, "; "))
		if r.Aborted != "" {
			rc.Probe("context_error")
			return nil
		}
		canceled := strings.Contains(errTexts(r.Res), "The build was canceled")
		if canceled {
			rc.Probe("canceled_build")
			rc.Stats.Faults["cancellation_during_build"]++
		}
		if r.CancelIssued && !canceled {
			rc.Probe("cancel_too_late")
		}
		if len(r.Res.Errors) > 0 && !canceled {
			rc.Probe("failed_build")
		}
		if v := CheckWrites(rc, r, ws, "incremental", canceled); v != nil {
			v.Detail += fmt.Sprintf("; options: outdir=%s write=%v allowOverwrite=%v; history: %s", r.Opts.Outdir, r.Opts.Write, r.Opts.AllowOverwrite, strings.Join(hist, " || "))
			return v
		}
	}
	rc.Note("hist:" + fmt.Sprintf("%x", fnv64(strings.Join(hist, "|"))))
	return nil
}

// globOn makes OptModel.Build add the glob entry point (set only by scenarioC17).
var globOn bool
