package harness

// C20, part (c): Serve. The real pkg/api/serve_other.go and the real net/http server run
// over the simulated network (verifsim.Listen / verifsim.Dial: in-bubble pipes) while
// client tasks issue Rebuild/Cancel/Dispose/Watch/Edit and HTTP requests: GETs of
// output files, of files in the serve directory, event streams that are read for a
// seeded (simulated) duration and then dropped, requests that are abandoned half-way.
// Checked over the recorded history, under the race detector:
//   - termination (no deadlock, no leaked goroutine, bounded steps),
//   - a 200 response for an output file carries exactly the bytes that file had in one
//     build that was in progress during the request or ended at most ~250 ms (the
//     documented reuse window; 400 ms tolerated) before it - never a mixture, never older,
//   - 503 only when such a build failed, 404 for an output only when such a build lacks it,
//   - nothing is served once Dispose has returned; no callback runs after it,
//   - every answered request is reported to OnRequest exactly once with its status,
//   - the event stream delivers, in order and exactly once, the difference between
//     consecutive successful builds to every stream that was open throughout,
//   - files read from the serve directory are never older than an edit that had returned
//     before the request (joins the per-file register linearizability check),
// plus everything the context scenario checks (results of Rebuild calls, callback order).

import (
	"bufio"
	"encoding/json"
	"fmt"
	"io"
	"net"
	"net/http"
	"os"
	"sort"
	"strconv"
	"strings"
	"time"

	"github.com/evanw/esbuild/pkg/api"
	"github.com/evanw/esbuild/pkg/verifsim"
)

type sOp struct {
	Kind   string // rebuild cancel edit sleep watch dispose serve get stream
	Dur    time.Duration
	Target string
	Method string
	Range  [2]int // Range: bytes=a-b (when b > 0)
	Abort  int    // 0 no, 1 drop the connection after half of the request, 2 after the request, 3 after the response head
}

// yconn makes every blocking network operation of a client task a scheduling point.
type yconn struct{ net.Conn }

func (c yconn) Read(b []byte) (int, error) {
	n, err := c.Conn.Read(b)
	verifsim.Yield("harness", "netread>")
	return n, err
}

func (c yconn) Write(b []byte) (int, error) {
	verifsim.Yield("harness", "netwrite<")
	n, err := c.Conn.Write(b)
	verifsim.Yield("harness", "netwrite>")
	return n, err
}

func dialSim(port int) (net.Conn, error) {
	verifsim.Yield("harness", "dial<")
	c, err := verifsim.Dial(port)
	verifsim.Yield("harness", "dial>")
	if err != nil {
		return nil, err
	}
	return yconn{c}, nil
}

// httpOnce performs one request on a fresh connection and describes the outcome.
func httpOnce(port int, method, target string, abort int, rng ...int) string {
	conn, err := dialSim(port)
	if err != nil {
		return "refused"
	}
	defer conn.Close()
	rangeHdr := ""
	if len(rng) == 2 && rng[1] > 0 {
		rangeHdr = fmt.Sprintf("Range: bytes=%d-%d\r\n", rng[0], rng[1])
	}
	req := fmt.Sprintf("%s %s HTTP/1.1\r\nHost: localhost:%d\r\nConnection: close\r\nOrigin: http://example.com\r\n%s\r\n", method, target, port, rangeHdr)
	if abort == 1 {
		conn.Write([]byte(req[:len(req)/2]))
		return "aborted"
	}
	if _, err := conn.Write([]byte(req)); err != nil {
		return "reset"
	}
	if abort == 2 {
		return "aborted"
	}
	br := bufio.NewReader(conn)
	resp, err := http.ReadResponse(br, &http.Request{Method: method})
	if err != nil {
		return "eof"
	}
	if abort == 3 {
		return "aborted"
	}
	body, err := io.ReadAll(resp.Body)
	if err != nil {
		return fmt.Sprintf("status=%d truncated", resp.StatusCode)
	}
	if debugOn && resp.StatusCode == 503 {
		fmt.Printf("503: %s\n", trunc(strings.ReplaceAll(string(body), "\n", " "), 200))
	}
	var r api.BuildResult
	r.OutputFiles = []api.OutputFile{{Path: "x", Contents: body}}
	return fmt.Sprintf("status=%d len=%d clen=%s fnv=%016x versions=%s loc=%s crange=%s", resp.StatusCode, len(body), resp.Header.Get("Content-Length"),
		fnv64(string(body)), observedVersions(&r), resp.Header.Get("Location"), strings.ReplaceAll(resp.Header.Get("Content-Range"), " ", "_"))
}

// streamOnce opens the event stream, logs every event and drops the connection after dur.
func streamOnce(port int, client, idx int, dur time.Duration) string {
	conn, err := dialSim(port)
	if err != nil {
		return "refused"
	}
	defer conn.Close()
	req := fmt.Sprintf("GET /esbuild HTTP/1.1\r\nHost: localhost:%d\r\nAccept: text/event-stream\r\n\r\n", port)
	if _, err := conn.Write([]byte(req)); err != nil {
		return "reset"
	}
	conn.SetReadDeadline(time.Now().Add(dur))
	br := bufio.NewReader(conn)
	resp, err := http.ReadResponse(br, &http.Request{Method: "GET"})
	if err != nil {
		return "eof"
	}
	if resp.StatusCode != 200 {
		return fmt.Sprintf("status=%d", resp.StatusCode)
	}
	body := bufio.NewReader(resp.Body)
	opened := false
	event := ""
	n := 0
	for {
		line, err := body.ReadString('\n')
		if err != nil {
			reason := "eof"
			if ne, ok := err.(net.Error); ok && ne.Timeout() {
				reason = "deadline"
			}
			verifsim.LogEvent("sse-close", client, idx, reason, "")
			return fmt.Sprintf("stream %s events=%d opened=%v", reason, n, opened)
		}
		line = strings.TrimRight(line, "\n")
		switch {
		case strings.HasPrefix(line, "retry:"):
			opened = true
			verifsim.LogEvent("sse-open", client, idx, "", "")
		case strings.HasPrefix(line, "event: "):
			event = line[len("event: "):]
		case strings.HasPrefix(line, "data: "):
			verifsim.LogEvent("sse", client, idx, event, line[len("data: "):])
			n++
		}
	}
}

func scenarioC20Serve(rc *RunCtx) *Violation {
	g := rc.G
	p := GenProject(g, "/p")
	p.Trim(8)
	for _, m := range p.Mods {
		m.Feat &^= FeatWarn | FeatSourceMapComment
		m.Broken = false
	}
	o := GenOptions(g, p)
	o.Bundle = true
	o.Metafile = true
	o.Write = g.chance(50)
	o.Outdir = []int{0, 1, 0}[g.n(3)]
	o.Inject = g.chance(30)
	if o.Inject {
		p.Extra["src/inject.js"] = "export let injected = 'INJ';\nconsole.log('inject');\n"
	}
	o.Sourcemap = 0
	o.MinifyWS, o.MinifyIDs, o.MinifySyn = false, false, false
	o.LineLimit = 0
	o.AllowOverwrite = false
	o.EntryNames = []int{0, 1, 6}[g.n(3)]
	o.PublicPath = []int{0, 0, 2}[g.n(3)]
	d := newDisk(g)
	d.Gran = 1
	p.WriteTo(d, false)
	dumpProject(p, o)
	opts := o.Build(p)
	absOutdir := p.Root + "/" + opts.Outdir

	// a canonical build tells which output paths exist (names without hashes stay put)
	var pre api.BuildResult
	rc.Sim(SimOpts{Disk: d, Canonical: true}, func() {
		o2 := opts
		o2.Write = false
		pre = api.Build(o2)
	})
	d.TakeLog()
	var outRel []string
	for _, f := range pre.OutputFiles {
		if strings.HasPrefix(f.Path, absOutdir+"/") {
			outRel = append(outRel, f.Path[len(absOutdir)+1:])
		}
	}
	sort.Strings(outRel)

	servedirMode := g.n(3) // 0 none, 1 project root, 2 the output directory's parent
	servedir := ""
	prefix := ""
	switch servedirMode {
	case 1:
		servedir = p.Root
		prefix = opts.Outdir + "/"
	case 2:
		servedir = dirOf(absOutdir)
		prefix = absOutdir[len(servedir)+1:] + "/"
	}
	fallback := ""
	if servedirMode != 0 && g.n(2) == 0 {
		p.Extra["fallback.html"] = "<p>FALLBACK PAGE</p>\n"
		fallback = p.Root + "/fallback.html"
		d.PutFile(fallback, []byte(p.Extra["fallback.html"]), false)
	}
	nOccupied := g.n(3)
	port := 8000 + nOccupied
	var srcTargets []string // files in the serve directory that are module sources
	srcMod := map[string]*Module{}
	if servedirMode == 1 {
		for _, m := range p.Mods {
			if !m.Deleted && isJS(m.Kind) {
				srcTargets = append(srcTargets, "/"+m.Path)
				srcMod["/"+m.Path] = m
			}
		}
	}
	pickTarget := func() string {
		switch k := g.n(10); {
		case k < 6 && len(outRel) > 0:
			return "/" + prefix + outRel[g.n(len(outRel))]
		case k == 6:
			return "/"
		case k == 7:
			return "/" + prefix + "no-such-file.js"
		case k == 8 && len(srcTargets) > 0:
			return srcTargets[g.n(len(srcTargets))]
		default:
			return "/" + strings.TrimSuffix(prefix, "/")
		}
	}

	watchDelay := watchDelays[g.n(len(watchDelays))]
	nClients := 2 + g.n(3)
	progs := make([][]sOp, nClients)
	var progDesc []string
	watchUsed := false
	kinds := []string{"rebuild", "rebuild", "cancel", "edit", "edit", "sleep", "sleep", "watch", "dispose", "serve", "serve", "get", "get", "get", "get", "get", "stream", "stream"}
	for c := range progs {
		n := 1 + g.n(5)
		var names []string
		for i := 0; i < n; i++ {
			op := sOp{Kind: kinds[g.n(len(kinds))], Method: "GET"}
			if c == 0 && i == 0 && g.chance(70) {
				op.Kind = "serve"
			}
			switch op.Kind {
			case "watch":
				if watchUsed || g.n(2) == 0 {
					op.Kind = "get"
				} else {
					watchUsed = true
				}
			case "dispose":
				if g.n(2) == 0 {
					op.Kind = "get"
				}
			}
			if op.Kind == "get" && g.n(6) == 0 {
				// let the reuse window of the last build pass, edit, and fetch at once: the
				// response must already reflect the edit (also when a watcher is running,
				// which would notice the edit only at its next poll)
				op.Kind = "freshget"
			}
			switch op.Kind {
			case "freshget":
				op.Target = "/"
				if len(outRel) > 0 {
					op.Target = "/" + prefix + outRel[0]
				}
			case "sleep":
				op.Dur = sleepChoices[g.n(len(sleepChoices))]
			case "stream":
				op.Dur = []time.Duration{5 * time.Millisecond, 200 * time.Millisecond, 3 * time.Second, 40 * time.Second}[g.n(4)]
			case "get":
				op.Target = pickTarget()
				if g.n(8) == 0 {
					op.Method = "HEAD"
				}
				if g.n(6) == 0 {
					op.Abort = 1 + g.n(3)
				}
				if g.n(5) == 0 && op.Method == "GET" {
					a := g.n(40)
					op.Range = [2]int{a, a + 1 + g.n(60)}
				}
			}
			progs[c] = append(progs[c], op)
			nm := op.Kind
			if op.Kind == "get" {
				nm = fmt.Sprintf("%s %s abort=%d", op.Method, op.Target, op.Abort)
				if op.Range[1] > 0 {
					nm += fmt.Sprintf(" range=%d-%d", op.Range[0], op.Range[1])
				}
			} else if op.Dur > 0 {
				nm += "(" + op.Dur.String() + ")"
			}
			names = append(names, nm)
		}
		progDesc = append(progDesc, fmt.Sprintf("client%d: %s", c, strings.Join(names, ",")))
	}
	if g.n(6) == 0 {
		// "stream storm": event streams that are dropped quickly while another client keeps
		// editing and rebuilding, so that change broadcasts meet streams that are going away
		progs = progs[:0]
		progDesc = progDesc[:0]
		nClients = 2 + g.n(3)
		for c := 0; c < nClients; c++ {
			var ops []sOp
			var names []string
			if c == 0 {
				ops = append(ops, sOp{Kind: "serve"})
				names = append(names, "serve")
				for i, n := 0, 3+g.n(5); i < n; i++ {
					ops = append(ops, sOp{Kind: "edit"}, sOp{Kind: "rebuild"})
					names = append(names, "edit", "rebuild")
					if g.n(2) == 0 {
						// let simulated time pass so that stream deadlines fall between rebuilds
						d := []time.Duration{time.Millisecond, 10 * time.Millisecond, 60 * time.Millisecond}[g.n(3)]
						ops = append(ops, sOp{Kind: "sleep", Dur: d})
						names = append(names, "sleep("+d.String()+")")
					}
				}
			} else {
				ops = append(ops, sOp{Kind: "sleep", Dur: 60 * time.Millisecond})
				names = append(names, "sleep(60ms)")
				for i, n := 0, 1+g.n(3); i < n; i++ {
					d := []time.Duration{time.Millisecond, 5 * time.Millisecond, 30 * time.Millisecond, 200 * time.Millisecond}[g.n(4)]
					ops = append(ops, sOp{Kind: "stream", Dur: d})
					names = append(names, "stream("+d.String()+")")
				}
			}
			progs = append(progs, ops)
			progDesc = append(progDesc, fmt.Sprintf("client%d: %s", c, strings.Join(names, ",")))
		}
		rc.Probe("serve_stream_storm")
	}
	rc.Note(fmt.Sprintf("serve proj:%x progs:%s sd:%d port:%d", fnv64(fmt.Sprint(describeProject(p, o))), strings.Join(progDesc, ";"), servedirMode, port))
	rc.Sample("project", describeProject(p, o))
	rc.Sample("client_programs", progDesc)
	rc.Sample("serve", map[string]interface{}{"servedir": servedir, "port": port, "outputs": outRel})

	opts.Plugins = c20Plugins(g, p.Root, d, opts.Write)
	var zero api.BuildResult
	zeroDigest := resultDigest(&zero)
	var ctxErr string
	var netStats verifsim.NetStatsT
	so := SimOpts{Disk: d, MaxSteps: 6000000}
	if v := os.Getenv("VERIF_STALL_SITES"); v != "" {
		so.StallSites = strings.Split(v, ",") // exploration aid
	}
	s := rc.Sim(so, func() {
		for i := 0; i < nOccupied; i++ {
			verifsim.Occupy(8000 + i)
		}
		ctx, cerr := api.Context(opts)
		if cerr != nil {
			ctxErr = cerr.Error()
			return
		}
		var fs []func()
		for c := range progs {
			c := c
			fs = append(fs, func() {
				for i, op := range progs[c] {
					verifsim.LogEvent("call<", c, i, op.Kind, fmt.Sprintf("%s %s %d-%d", op.Method, op.Target, op.Range[0], op.Range[1]))
					res := ""
					switch op.Kind {
					case "rebuild":
						r := ctx.Rebuild()
						res = resultDigest(&r) + " " + observedVersions(&r)
						if len(r.Errors) == 0 && r.Metafile != "" {
							if mf, err := ParseMetafile(r.Metafile); err != nil || len(mf.Outputs) != len(r.OutputFiles) {
								res += " INCONSISTENT"
							}
						}
					case "cancel":
						ctx.Cancel()
					case "dispose":
						ctx.Dispose()
					case "watch":
						if err := ctx.Watch(api.WatchOptions{Delay: watchDelay}); err != nil {
							res = "err:" + err.Error()
						}
					case "sleep":
						verifsim.Sleep(op.Dur)
					case "edit":
						idx := 1 + c
						if idx >= len(p.Mods) || p.Mods[idx].Deleted || !isJS(p.Mods[idx].Kind) {
							idx = 0
						}
						if idx == 0 && c != 0 {
							break
						}
						m := p.Mods[idx]
						m.Version++
						verifsim.LogEvent("edit<", m.ID, m.Version, "", "")
						d.PutFile(p.Root+"/"+m.Path, []byte(p.RenderModule(m)), false)
						verifsim.LogEvent("edit>", m.ID, m.Version, "", "")
					case "serve":
						sr, err := ctx.Serve(api.ServeOptions{Host: "127.0.0.1", Servedir: servedir, Fallback: fallback,
							CORS: api.CORSOptions{Origin: []string{"http://*.com"}},
							OnRequest: func(a api.ServeOnRequestArgs) {
								verifsim.LogEvent("onreq", a.Status, a.TimeInMS, a.Method+" "+a.Path, "")
							}})
						if err != nil {
							res = "err:" + err.Error()
						} else {
							res = fmt.Sprintf("port=%d", sr.Port)
						}
					case "freshget":
						verifsim.Sleep(700 * time.Millisecond)
						if c == 0 && len(p.Mods) > 0 && isJS(p.Mods[0].Kind) {
							m := p.Mods[0]
							m.Version++
							verifsim.LogEvent("edit<", m.ID, m.Version, "", "")
							d.PutFile(p.Root+"/"+m.Path, []byte(p.RenderModule(m)), false)
							verifsim.LogEvent("edit>", m.ID, m.Version, "", "")
						}
						verifsim.LogEvent("call<", c, 1000+i, "get", fmt.Sprintf("GET %s 0-0", op.Target))
						res = httpOnce(port, "GET", op.Target, 0)
						verifsim.LogEvent("call>", c, 1000+i, "get", res)
					case "get":
						res = httpOnce(port, op.Method, op.Target, op.Abort, op.Range[0], op.Range[1])
					case "stream":
						res = streamOnce(port, c, i, op.Dur)
					}
					verifsim.LogEvent("call>", c, i, op.Kind, res)
				}
			})
		}
		parallel(fs...)
		verifsim.LogEvent("call<", 99, 0, "dispose", "")
		ctx.Dispose()
		verifsim.LogEvent("call>", 99, 0, "dispose", "")
		verifsim.LogEvent("call<", 99, 1, "get", "GET /")
		res := httpOnce(port, "GET", "/", 0)
		verifsim.LogEvent("call>", 99, 1, "get", res)
		netStats = verifsim.NetStats
	})
	rc.Stats.Builds++
	if ctxErr != "" {
		rc.Probe("context_error")
		return nil
	}
	if v := abnormal(s, "serve clients "+strings.Join(progDesc, "; ")); v != nil {
		return v
	}
	// faults of the simulated network that were actually delivered in this run
	rc.Stats.Faults["net_port_in_use"] += netStats.ListenInUse
	rc.Stats.Faults["net_dial_refused"] += netStats.DialsRefused
	for _, e := range s.Events() {
		if e.Kind == "call>" && e.S == "get" && e.T == "aborted" {
			rc.Stats.Faults["net_request_abandoned_by_client"]++
		}
		if e.Kind == "sse-close" && e.S == "deadline" {
			rc.Stats.Faults["net_event_stream_dropped_by_client"]++
		}
	}
	if netStats.Accepts > 0 {
		rc.Probe("serve_connection_accepted")
	}
	if netStats.ListenInUse > 0 {
		rc.Probe("serve_port_in_use_skipped")
	}
	ev := s.Events()
	sc := &serveCheck{rc: rc, ev: ev, p: p, port: port, prefix: prefix, outRel: outRel, srcMod: srcMod, outdirName: opts.Outdir, hasFallback: fallback != ""}
	extra := &c20Extra{TimeEndExt: true, Check: sc.check, Reads: sc.fileReads()}
	return checkC20History(rc, ev, d.TakeLog(), zeroDigest, progDesc, opts.Write, extra)
}

type serveCheck struct {
	rc          *RunCtx
	ev          []verifsim.Event
	p           *Project
	port        int
	prefix      string
	outRel      []string
	srcMod      map[string]*Module
	outdirName  string // the output directory relative to the project root
	hasFallback bool
}

type httpReq struct {
	client, idx    int
	kind           string // get | stream
	method, target string
	abort          bool
	inv, ret       int
	invAt          int64
	res            string
	status         int
	rangeA, rangeB int
}

func (sc *serveCheck) requests() []*httpReq {
	var out []*httpReq
	open := map[[2]int]*httpReq{}
	for _, e := range sc.ev {
		switch e.Kind {
		case "call<":
			if e.S == "get" || e.S == "stream" {
				mt := strings.SplitN(e.T, " ", 3)
				r := &httpReq{client: e.A, idx: e.B, kind: e.S, method: mt[0], inv: e.N, invAt: e.At, ret: -1}
				if len(mt) > 1 {
					r.target = mt[1]
				}
				if len(mt) > 2 {
					fmt.Sscanf(mt[2], "%d-%d", &r.rangeA, &r.rangeB)
				}
				if e.S == "stream" {
					r.method, r.target = "GET", "/esbuild"
				}
				open[[2]int{e.A, e.B}] = r
				out = append(out, r)
			}
		case "call>":
			if r := open[[2]int{e.A, e.B}]; r != nil && (e.S == "get" || e.S == "stream") {
				r.ret, r.res = e.N, e.T
				if strings.HasPrefix(e.T, "status=") {
					r.status, _ = strconv.Atoi(strings.Fields(e.T[len("status="):])[0])
				}
				if e.S == "stream" && strings.HasPrefix(e.T, "stream ") {
					r.status = 200
				}
				r.abort = e.T == "aborted" || strings.Contains(e.T, "truncated")
			}
		}
	}
	return out
}

func field(res, key string) string {
	for _, f := range strings.Fields(res) {
		if strings.HasPrefix(f, key+"=") {
			return f[len(key)+1:]
		}
	}
	return ""
}

// fileReads: files served from the serve directory are reads of the per-file registers.
func (sc *serveCheck) fileReads() []c20Read {
	var out []c20Read
	for _, r := range sc.requests() {
		m := sc.srcMod[r.target]
		if m == nil || r.status != 200 || r.ret < 0 || r.method != "GET" {
			continue
		}
		vs := field(r.res, "versions") // "id=v" of the single marker in a source file
		kv := strings.SplitN(vs, "=", 2)
		if len(kv) != 2 || strings.ContainsAny(kv[1], "/,") {
			continue
		}
		id, _ := strconv.Atoi(kv[0])
		v, _ := strconv.Atoi(kv[1])
		if id != m.ID {
			continue
		}
		out = append(out, c20Read{File: id, Version: v, Call: r.inv, Return: r.ret})
		sc.rc.Probe("servedir_source_read_checked")
	}
	return out
}

func (sc *serveCheck) check(builds []*c20Build, viol func(class, f string, a ...interface{}) *Violation) *Violation {
	rc := sc.rc
	ev := sc.ev
	// per build: the output files the first end callback saw
	type bfiles struct {
		files  map[string]string
		errors int
		known  bool
	}
	bf := make([]bfiles, len(builds))
	for _, e := range ev {
		if e.Kind != "files" {
			continue
		}
		for i, b := range builds {
			if e.N > b.first && (e.N < b.last || !b.complete) {
				m := map[string]string{}
				if e.T != "" {
					for _, kv := range strings.Split(e.T, ";") {
						p2 := strings.SplitN(kv, "=", 2)
						m[p2[0]] = p2[1]
					}
				}
				bf[i] = bfiles{files: m, errors: e.B, known: true}
			}
		}
	}
	contents := make([]map[string]string, len(builds))
	for _, e := range ev {
		if e.Kind != "content" {
			continue
		}
		for i, b := range builds {
			if e.N > b.first && (e.N < b.last || !b.complete) {
				if contents[i] == nil {
					contents[i] = map[string]string{}
				}
				contents[i][e.S] = e.T
			}
		}
	}
	ok := func(i int) bool { return bf[i].known && bf[i].errors == 0 && !builds[i].endFailed }
	serveRet, serveInv := -1, -1
	firstDisposeInv, firstDisposeRet := -1, -1
	open := map[[2]int]int{}
	for _, e := range ev {
		switch e.Kind {
		case "call<":
			open[[2]int{e.A, e.B}] = e.N
			if e.S == "dispose" && firstDisposeInv < 0 {
				firstDisposeInv = e.N
			}
		case "call>":
			if e.S == "serve" && strings.HasPrefix(e.T, "port=") {
				serveRet, serveInv = e.N, open[[2]int{e.A, e.B}]
				if e.T != fmt.Sprintf("port=%d", sc.port) {
					return viol("serve-port", "Serve reported %s, the first free port was %d", e.T, sc.port)
				}
			}
			// the Dispose call that was invoked first is the one that tears the server down
			// (a second, overlapping Dispose only waits for the running build)
			if e.S == "dispose" && open[[2]int{e.A, e.B}] == firstDisposeInv {
				firstDisposeRet = e.N
			}
		}
	}
	reqs := sc.requests()
	answered := map[string]int{} // "METHOD path status" -> responses the clients saw
	maybe := map[string]int{}    // path -> requests that may have been answered without the client seeing it
	for _, r := range reqs {
		if r.ret < 0 {
			continue // reported as call-never-returned by the common checks
		}
		if r.status == 0 {
			if r.res != "refused" {
				maybe[r.target]++
			}
			// no response at all: legitimate only while the server is not (or no longer) up
			if !r.abort && serveRet >= 0 && serveRet < r.inv && (firstDisposeInv < 0 || firstDisposeInv > r.ret) {
				return viol("http-no-response", "%s %s (events %d..%d) got no response (%s) although Serve had returned (event %d) and Dispose had not been called", r.method, r.target, r.inv, r.ret, r.res, serveRet)
			}
			continue
		}
		if r.abort {
			maybe[r.target]++
		} else {
			answered[fmt.Sprintf("%s %s %d", r.method, r.target, r.status)]++
		}
		if firstDisposeRet >= 0 && r.inv > firstDisposeRet {
			return viol("served-after-dispose", "%s %s invoked (event %d) after Dispose had returned (event %d) was answered with status %d", r.method, r.target, r.inv, firstDisposeRet, r.status)
		}
		if r.kind != "get" || r.abort {
			continue
		}
		rc.Probe(fmt.Sprintf("http_status_%d", r.status))
		// which output file does the target name?
		rel := ""
		if strings.HasPrefix(r.target, "/"+sc.prefix) {
			cand := r.target[len("/"+sc.prefix):]
			for _, o := range sc.outRel {
				if o == cand {
					rel = o
				}
			}
		}
		if rel == "" {
			// a path that names nothing is answered with the fallback page when there is one
			if sc.hasFallback && strings.HasSuffix(r.target, "no-such-file.js") && r.status == 200 && r.method == "GET" && r.rangeB == 0 {
				if field(r.res, "fnv") != fmt.Sprintf("%016x", fnv64("<p>FALLBACK PAGE</p>\n")) {
					return viol("http-fallback-wrong-body", "GET %s was answered with 200 but not with the fallback page: %s", r.target, r.res)
				}
				rc.Probe("http_fallback_page_served")
			}
			continue
		}
		key := stripRoot(sc.p.Root+"/"+sc.outdir()+"/"+rel, sc.p.Root)
		var acceptable []int
		for i, b := range builds {
			if b.first < r.ret && (b.endExt > r.inv || (b.complete && b.lastAt+int64(400*time.Millisecond) >= r.invAt)) {
				acceptable = append(acceptable, i)
			}
		}
		disposed := firstDisposeInv >= 0 && firstDisposeInv < r.ret
		status := r.status
		if status == 200 && sc.hasFallback && r.rangeB == 0 && field(r.res, "fnv") == fmt.Sprintf("%016x", fnv64("<p>FALLBACK PAGE</p>\n")) {
			status = 404 // the fallback page stands in for "not found"
			rc.Probe("http_fallback_instead_of_output")
		}
		switch status {
		case 206:
			// a byte range of one current build's file
			found := false
			for _, i := range acceptable {
				if c, has := contents[i][key]; ok(i) && has && r.rangeA < len(c) {
					end := r.rangeB + 1
					if end > len(c) {
						end = len(c)
					}
					if field(r.res, "fnv") == fmt.Sprintf("%016x", fnv64(c[r.rangeA:end])) && field(r.res, "crange") == fmt.Sprintf("bytes_%d-%d/%d", r.rangeA, end-1, len(c)) {
						found = true
					}
				}
			}
			if !found {
				return viol("http-range-response-wrong", "GET %s with Range %d-%d (events %d..%d) returned 206 with a body or Content-Range that is not that range of the file in any current build: %s", r.target, r.rangeA, r.rangeB, r.inv, r.ret, r.res)
			}
			rc.Probe("http_206_matches_a_current_build")
		case 200:
			want := field(r.res, "fnv")
			if r.rangeB > 0 {
				rc.Probe("http_range_ignored_or_unsatisfiable")
				continue
			}
			if r.method == "HEAD" {
				rc.Probe("http_head")
				continue
			}
			if strings.Contains(field(r.res, "versions"), "/") {
				return viol("http-mixed-response", "GET %s returned a body with two versions of one module's marker: %s", r.target, r.res)
			}
			found := false
			for _, i := range acceptable {
				if ok(i) && bf[i].files[key] == want {
					found = true
				}
			}
			if !found {
				var desc []string
				for _, i := range acceptable {
					desc = append(desc, fmt.Sprintf("build %d (events %d..%d ok=%v %s=%s)", i, builds[i].first, builds[i].last, ok(i), key, bf[i].files[key]))
				}
				return viol("http-stale-or-foreign-response", "GET %s (events %d..%d) returned 200 with body digest %s, which is not that file's content in any build in progress during the request or finished within the reuse window before it; candidates: %s", r.target, r.inv, r.ret, want, strings.Join(desc, ", "))
			}
			rc.Probe("http_200_matches_a_current_build")
		case 503:
			found := false
			for _, i := range acceptable {
				if !ok(i) || !builds[i].complete {
					found = true
				}
			}
			if !found && len(acceptable) > 0 {
				return viol("http-503-without-failed-build", "GET %s (events %d..%d) returned 503 but every build it could have used succeeded", r.target, r.inv, r.ret)
			}
			rc.Probe("http_503_matches_failed_build")
		case 404:
			if disposed || len(acceptable) == 0 {
				continue
			}
			all := true
			for _, i := range acceptable {
				if !ok(i) || !builds[i].complete || bf[i].files[key] == "" {
					all = false
				}
			}
			if all {
				return viol("http-404-for-existing-output", "GET %s (events %d..%d) returned 404 although every build it could have used succeeded and produced that file", r.target, r.inv, r.ret)
			}
		}
	}
	// every answered request is reported to OnRequest exactly once
	onreq := map[string]int{}
	onreqPath := map[string]int{}
	for _, e := range ev {
		if e.Kind == "onreq" {
			onreq[fmt.Sprintf("%s %d", e.S, e.A)]++
			onreqPath[strings.SplitN(e.S, " ", 2)[1]]++
		}
	}
	if serveRet >= 0 {
		keys := make([]string, 0, len(answered))
		for k := range answered {
			keys = append(keys, k)
		}
		sort.Strings(keys)
		for _, k := range keys {
			path := strings.Fields(k)[1]
			if onreq[k] < answered[k] {
				return viol("onrequest-missing", "%d responses %q were received but OnRequest was told about %d", answered[k], k, onreq[k])
			}
			if onreq[k] > answered[k]+maybe[path] {
				return viol("onrequest-duplicate", "%d responses %q were received (plus %d abandoned requests for that path) but OnRequest was called %d times", answered[k], k, maybe[path], onreq[k])
			}
			rc.Probe("onrequest_counted")
		}
	}
	return sc.checkStreams(builds, ok, func(i int) map[string]string { return bf[i].files }, serveInv, serveRet, viol)
}

func (sc *serveCheck) outdir() string { return sc.outdirName }

type sseEvent struct {
	n    int
	data string
}

func (sc *serveCheck) checkStreams(builds []*c20Build, ok func(int) bool, files func(int) map[string]string, serveInv, serveRet int,
	viol func(class, f string, a ...interface{}) *Violation) *Violation {
	rc := sc.rc
	if serveRet < 0 {
		return nil
	}
	// the broadcasts the handler performs: successful builds that captured the handler
	ambiguous := false
	type bc struct {
		build               int
		added, removed, upd []string
	}
	var bcs []bc
	cur := map[string]string{}
	for i, b := range builds {
		if b.first < serveInv {
			continue
		}
		if b.first < serveRet || !b.complete {
			ambiguous = true
			break
		}
		if !ok(i) {
			continue
		}
		nf := files(i)
		var x bc
		x.build = i
		for k, h := range nf {
			if old, had := cur[k]; !had {
				x.added = append(x.added, k)
			} else if old != h {
				x.upd = append(x.upd, k)
			}
		}
		for k := range cur {
			if _, has := nf[k]; !has {
				x.removed = append(x.removed, k)
			}
		}
		sort.Strings(x.added)
		sort.Strings(x.removed)
		sort.Strings(x.upd)
		cur = nf
		if len(x.added)+len(x.removed)+len(x.upd) > 0 {
			bcs = append(bcs, x)
		}
	}
	if ambiguous {
		rc.Probe("sse_model_ambiguous")
		return nil
	}
	// streams
	type stream struct {
		client, idx  int
		open, closeN int
		reason       string
		events       []sseEvent
	}
	streams := map[[2]int]*stream{}
	var order [][2]int
	for _, e := range sc.ev {
		k := [2]int{e.A, e.B}
		switch e.Kind {
		case "sse-open":
			streams[k] = &stream{client: e.A, idx: e.B, open: e.N, closeN: -1}
			order = append(order, k)
		case "sse":
			if s := streams[k]; s != nil {
				s.events = append(s.events, sseEvent{e.N, e.T})
			}
		case "sse-close":
			if s := streams[k]; s != nil {
				s.closeN, s.reason = e.N, e.S
			}
		}
	}
	norm := func(urls []string) ([]string, bool) {
		// map each URL to the output it names (by suffix)
		var out []string
		for _, u := range urls {
			best := ""
			for _, x := range bcs {
				for _, l := range [][]string{x.added, x.removed, x.upd} {
					for _, k := range l {
						rel := k
						if i := strings.Index(k, sc.outdir()+"/"); i >= 0 {
							rel = k[i+len(sc.outdir())+1:]
						}
						if strings.HasSuffix(u, "/"+sc.prefix+rel) && len(k) > len(best) {
							best = k
						}
					}
				}
			}
			if best == "" {
				return nil, false
			}
			out = append(out, best)
		}
		sort.Strings(out)
		return out, true
	}
	for _, k := range order {
		s := streams[k]
		pos := 0
		for _, e := range s.events {
			var msg struct{ Added, Removed, Updated []string }
			if err := json.Unmarshal([]byte(e.data), &msg); err != nil {
				return viol("sse-malformed-event", "event stream delivered data that is not JSON: %s", e.data)
			}
			a, ok1 := norm(msg.Added)
			r, ok2 := norm(msg.Removed)
			u, ok3 := norm(msg.Updated)
			matched := false
			if ok1 && ok2 && ok3 {
				for pos < len(bcs) {
					x := bcs[pos]
					pos++
					// (a build whose owner had finished before the stream was opened cannot be the
					// one this event belongs to; consecutive builds often have identical changes)
					if builds[x.build].endExt >= s.open && strings.Join(a, ",") == strings.Join(x.added, ",") && strings.Join(r, ",") == strings.Join(x.removed, ",") && strings.Join(u, ",") == strings.Join(x.upd, ",") {
						matched = true
						break
					}
					// skipped broadcast: legitimate only if it was not surely inside the stream's life
					b := builds[x.build]
					if b.last > s.open && s.closeN >= 0 && b.endExt < s.closeN && b.endExt < e.n {
						return viol("sse-event-lost", "stream open over events %d..%d did not receive the change of build %d (events %d..%d): added=%v removed=%v updated=%v", s.open, s.closeN, x.build, b.first, b.last, x.added, x.removed, x.upd)
					}
				}
			}
			if !matched {
				return viol("sse-unexpected-event", "event stream (client %d) delivered %s, which is not the difference between two consecutive successful builds (in order, each once)", s.client, e.data)
			}
			rc.Probe("sse_event_matches_build_diff")
		}
		// broadcasts after the last received event that surely fell into the stream's life
		for ; pos < len(bcs); pos++ {
			x := bcs[pos]
			b := builds[x.build]
			if b.last > s.open && s.closeN >= 0 && b.endExt < s.closeN && s.reason == "deadline" {
				return viol("sse-event-lost", "stream open over events %d..%d did not receive the change of build %d (events %d..%d): added=%v removed=%v updated=%v", s.open, s.closeN, x.build, b.first, b.last, x.added, x.removed, x.upd)
			}
		}
		rc.Probe("sse_stream_checked")
	}
	return nil
}
