module verif/simgen

go 1.23
