// simgen: source-to-source instrumenter for the deterministic simulation of esbuild.
//
// Usage: simgen -repo /repo -out /verif/build -simrt /verif/simrt -hooks /verif/hooks
//
// Reads every non-test .go file under <repo>/{internal,pkg,cmd} from the CURRENT
// WORKING TREE, rewrites it mechanically (rules below) and writes the rewritten copy to
// <out>/src/... together with <out>/overlay.json for `go test -c -overlay`. /repo is
// never modified. Exit status 2 = could not rewrite (infrastructure error).
//
// Rules (all local and syntactic):
//  1. selected package-level functions of os, io/ioutil, x/sys/unix, math/rand and time
//     are redirected to the virtual package pkg/verifsim (the simulated disk, PRNG and
//     clock); the type os.File is redirected inside internal/fs.
//  2. after every `go` statement: verifsim.Yield (parent parks, child registers).
//  3. channel send / receive statements, select, range over a channel: Yield before and
//     after (after a comm clause is chosen: Yield at the start of its body).
//  4. x.Wait(): Yield before and after.
//  5. m.Lock() -> Yield; for !m.TryLock() { verifsim.WaitUnlock() }   (same for RLock)
//     m.Unlock() -> m.Unlock(); verifsim.NotifyUnlock()               (also deferred)
//  6. CancelFlag.DidCancel: Yield at entry.
//  7. hook files from <hooks> are added as virtual in-package files, and the simrt
//     files as the virtual package pkg/verifsim; cmd/esbuild's service files are
//     re-packaged as the library pkg/verifsvc.
package main

import (
	"bytes"
	"crypto/sha256"
	"encoding/json"
	"flag"
	"fmt"
	"go/ast"
	"go/build"
	"go/format"
	"go/parser"
	"go/token"
	"os"
	"path/filepath"
	"sort"
	"strconv"
	"strings"
)

const simImport = "github.com/evanw/esbuild/pkg/verifsim"

type redirect struct {
	to      string
	onlyDir string // restrict to files whose repo-relative path has this prefix ("" = everywhere)
}

var redirects = map[string]map[string]redirect{
	"os": {
		"Open": {"Open", ""}, "Stat": {"Stat", ""}, "Lstat": {"Lstat", ""}, "Readlink": {"Readlink", ""},
		"Mkdir": {"Mkdir", ""}, "Remove": {"Remove", ""}, "Getwd": {"Getwd", ""},
		"File":  {"File", "internal/fs/"},
		"Stdin": {"Stdin", "cmd/esbuild/service.go"}, "Stdout": {"Stdout", "cmd/esbuild/service.go"}, "Exit": {"Exit", "cmd/esbuild/service.go"},
	},
	"io/ioutil": {"ReadFile": {"ReadFile", ""}, "WriteFile": {"WriteFile", ""}},
	"golang.org/x/sys/unix": {"Stat": {"UnixStat", ""}},
	"math/rand": {"Seed": {"RandSeed", ""}, "Read": {"RandRead", ""}, "Int31n": {"RandInt31n", ""}},
	"time":      {"Sleep": {"Sleep", ""}, "Now": {"WallNow", "internal/fs/"}},
	"net":       {"Listen": {"Listen", "pkg/api/"}},
}

type rewriter struct {
	fset     *token.FileSet
	rel      string // repo-relative path
	changed  bool
	imports  map[string]string // local name -> import path
	chanName map[string]bool
	sites    map[string]int
	mapRange []string // diagnostics: go statements / yields lexically inside a range-over-map (best effort)
	done     map[ast.Stmt]bool // statements that were already rewritten (they reappear inside generated blocks)
}

func (r *rewriter) site(pos token.Pos) ast.Expr {
	p := r.fset.Position(pos)
	return &ast.BasicLit{Kind: token.STRING, Value: strconv.Quote(fmt.Sprintf("%s:%d", filepath.Base(p.Filename), p.Line))}
}

func (r *rewriter) call(fn string, args ...ast.Expr) *ast.CallExpr {
	r.changed = true
	r.sites[fn]++
	return &ast.CallExpr{Fun: &ast.SelectorExpr{X: ast.NewIdent("verifsim"), Sel: ast.NewIdent(fn)}, Args: args}
}

func (r *rewriter) yield(pos token.Pos, kind string) ast.Stmt {
	return &ast.ExprStmt{X: r.call("Yield", r.site(pos), &ast.BasicLit{Kind: token.STRING, Value: strconv.Quote(kind)})}
}

func isRecv(e ast.Expr) bool {
	for {
		p, ok := e.(*ast.ParenExpr)
		if !ok {
			break
		}
		e = p.X
	}
	u, ok := e.(*ast.UnaryExpr)
	return ok && u.Op == token.ARROW
}

// method call x.Name() with no args
func methodCall(e ast.Expr, names ...string) (recv ast.Expr, name string, ok bool) {
	c, ok := e.(*ast.CallExpr)
	if !ok || len(c.Args) != 0 {
		return nil, "", false
	}
	s, ok := c.Fun.(*ast.SelectorExpr)
	if !ok {
		return nil, "", false
	}
	for _, n := range names {
		if s.Sel.Name == n {
			return s.X, n, true
		}
	}
	return nil, "", false
}

func lastName(e ast.Expr) string {
	switch x := e.(type) {
	case *ast.Ident:
		return x.Name
	case *ast.SelectorExpr:
		return x.Sel.Name
	case *ast.ParenExpr:
		return lastName(x.X)
	}
	return ""
}

func (r *rewriter) lockLoop(pos token.Pos, recv ast.Expr, name string) []ast.Stmt {
	try := "TryLock"
	if name == "RLock" {
		try = "TryRLock"
	}
	loop := &ast.ForStmt{
		Cond: &ast.UnaryExpr{Op: token.NOT, X: &ast.CallExpr{Fun: &ast.SelectorExpr{X: recv, Sel: ast.NewIdent(try)}}},
		Body: &ast.BlockStmt{List: []ast.Stmt{&ast.ExprStmt{X: r.call("WaitUnlock", r.site(pos))}}},
	}
	return []ast.Stmt{r.yield(pos, "lock"), loop}
}

func (r *rewriter) rewriteStmt(st ast.Stmt) []ast.Stmt {
	if r.done[st] {
		return []ast.Stmt{st}
	}
	switch s := st.(type) {
	case *ast.LabeledStmt:
		res := r.rewriteStmt(s.Stmt)
		if len(res) == 1 {
			s.Stmt = res[0]
			return []ast.Stmt{s}
		}
		// Statements inserted before a labelled loop must stay before the label;
		// statements after go after it.
		var before, after []ast.Stmt
		idx := -1
		for i, x := range res {
			if x == s.Stmt {
				idx = i
			}
		}
		if idx < 0 {
			s.Stmt = res[0]
			return append([]ast.Stmt{s}, res[1:]...)
		}
		before, after = res[:idx], res[idx+1:]
		out := append([]ast.Stmt{}, before...)
		out = append(out, s)
		return append(out, after...)
	case *ast.GoStmt:
		return []ast.Stmt{s, r.yield(s.Pos(), "go")}
	case *ast.SendStmt:
		return []ast.Stmt{r.yield(s.Pos(), "send<"), s, r.yield(s.Pos(), "send>")}
	case *ast.SelectStmt:
		return []ast.Stmt{r.yield(s.Pos(), "select<"), s}
	case *ast.RangeStmt:
		// pkg/api/watcher.go only: the watcher collects the keys of a map into a slice and
		// then shuffles the slice with the (redirected, seeded) PRNG. Sorting the collected
		// keys first picks one of the legal map iteration orders and makes the shuffle - and
		// with it the order of the watcher's polls - a function of the tape.
		if (r.rel == "pkg/api/watcher.go" || r.rel == "pkg/api/api_impl.go") && s.Value == nil && s.Key != nil && len(s.Body.List) == 1 {
			body0 := s.Body.List[0]
			// (pkg/api/api_impl.go: the stale outputs to delete are collected as
			//  `for p := range old { if _, ok := new[p]; !ok { list = append(list, p) } }` and one
			//  goroutine per entry is spawned afterwards: sorted, the deleters' task ids - and with
			//  them the order in which fault plans consume the tape - are a function of the tape)
			if ifs, ok := body0.(*ast.IfStmt); ok && ifs.Else == nil && len(ifs.Body.List) == 1 {
				body0 = ifs.Body.List[0]
			}
			if as, ok := body0.(*ast.AssignStmt); ok && len(as.Lhs) == 1 && len(as.Rhs) == 1 {
				if call, ok := as.Rhs[0].(*ast.CallExpr); ok && len(call.Args) == 2 {
					if fn, ok := call.Fun.(*ast.Ident); ok && fn.Name == "append" {
						dst, ok1 := as.Lhs[0].(*ast.Ident)
						src, ok2 := call.Args[0].(*ast.Ident)
						key, ok3 := s.Key.(*ast.Ident)
						arg, ok4 := call.Args[1].(*ast.Ident)
						if ok1 && ok2 && ok3 && ok4 && dst.Name == src.Name && key.Name == arg.Name {
							return []ast.Stmt{s, &ast.ExprStmt{X: r.call("SortStrings", ast.NewIdent(dst.Name))}}
						}
					}
				}
			}
		}
		if r.chanName[lastName(s.X)] && s.Value == nil {
			// for x := range ch { body }  ->  Yield; for x := range ch { Yield; body; Yield }; Yield
			s.Body.List = append(append([]ast.Stmt{r.yield(s.Pos(), "range>")}, s.Body.List...), r.yield(s.Pos(), "range<"))
			return []ast.Stmt{r.yield(s.Pos(), "range<"), s, r.yield(s.Pos(), "range>")}
		}
	case *ast.ExprStmt:
		if isRecv(s.X) {
			return []ast.Stmt{r.yield(s.Pos(), "recv<"), s, r.yield(s.Pos(), "recv>")}
		}
		if recv, _, ok := methodCall(s.X, "Wait"); ok {
			plain := []ast.Stmt{r.yield(s.Pos(), "wait<"), s, r.yield(s.Pos(), "wait>")}
			r.done[s] = true
			if addressable(recv) {
				// x.Wait() may be sync.Cond.Wait (no such use in the pinned tree, but a change may
				// add one): the simulator then plays the condition variable itself, because a
				// goroutine that re-acquires the cond's mutex inside the real Wait would block
				// where the bubble cannot see it.
				return []ast.Stmt{r.condIf(recv, r.call("CondWait", ast.NewIdent("verifsimCond"), r.site(s.Pos())), plain)}
			}
			return plain
		}
		if recv, name, ok := methodCall(s.X, "Signal", "Broadcast"); ok && addressable(recv) {
			r.done[s] = true
			return []ast.Stmt{r.condIf(recv, r.call("Cond"+name, ast.NewIdent("verifsimCond")), []ast.Stmt{s})}
		}
		if recv, name, ok := methodCall(s.X, "Lock", "RLock"); ok {
			return r.lockLoop(s.Pos(), recv, name)
		}
		if _, _, ok := methodCall(s.X, "Unlock", "RUnlock"); ok {
			return []ast.Stmt{s, &ast.ExprStmt{X: r.call("NotifyUnlock")}}
		}
	case *ast.DeferStmt:
		if _, _, ok := methodCall(s.Call, "Unlock", "RUnlock"); ok {
			return []ast.Stmt{&ast.DeferStmt{Call: r.call("NotifyUnlock")}, s}
		}
	case *ast.AssignStmt:
		if len(s.Rhs) == 1 && isRecv(s.Rhs[0]) {
			return []ast.Stmt{r.yield(s.Pos(), "recv<"), s, r.yield(s.Pos(), "recv>")}
		}
	case *ast.ReturnStmt:
		if len(s.Results) == 1 && isRecv(s.Results[0]) {
			tmp := ast.NewIdent("verifsimTmp")
			return []ast.Stmt{
				r.yield(s.Pos(), "recv<"),
				&ast.AssignStmt{Lhs: []ast.Expr{tmp}, Tok: token.DEFINE, Rhs: []ast.Expr{s.Results[0]}},
				r.yield(s.Pos(), "recv>"),
				&ast.ReturnStmt{Results: []ast.Expr{tmp}},
			}
		}
	}
	return []ast.Stmt{st}
}

func addressable(e ast.Expr) bool {
	switch x := e.(type) {
	case *ast.Ident:
		return true
	case *ast.SelectorExpr:
		return addressable(x.X)
	case *ast.IndexExpr:
		return addressable(x.X)
	case *ast.StarExpr:
		return true
	case *ast.ParenExpr:
		return addressable(x.X)
	}
	return false
}

// condIf builds: if verifsimCond, verifsimOK := verifsim.AsCond(&recv); verifsimOK { then } else { els }
func (r *rewriter) condIf(recv ast.Expr, then *ast.CallExpr, els []ast.Stmt) ast.Stmt {
	return &ast.IfStmt{
		Init: &ast.AssignStmt{
			Lhs: []ast.Expr{ast.NewIdent("verifsimCond"), ast.NewIdent("verifsimOK")},
			Tok: token.DEFINE,
			Rhs: []ast.Expr{r.call("AsCond", &ast.UnaryExpr{Op: token.AND, X: recv})},
		},
		Cond: ast.NewIdent("verifsimOK"),
		Body: &ast.BlockStmt{List: []ast.Stmt{&ast.ExprStmt{X: then}}},
		Else: &ast.BlockStmt{List: els},
	}
}

func (r *rewriter) rewriteList(list []ast.Stmt) []ast.Stmt {
	var out []ast.Stmt
	for _, st := range list {
		out = append(out, r.rewriteStmt(st)...)
	}
	return out
}

// Statements that are the direct body of if/for/etc. always sit in a BlockStmt in Go, so
// rewriting every statement list reaches every statement.
func (r *rewriter) walk(n ast.Node) {
	ast.Inspect(n, func(x ast.Node) bool {
		switch b := x.(type) {
		case *ast.BlockStmt:
			if b != nil {
				b.List = r.rewriteList(b.List)
			}
		case *ast.CaseClause:
			b.Body = r.rewriteList(b.Body)
		case *ast.CommClause:
			b.Body = append([]ast.Stmt{r.yield(b.Pos(), "comm>")}, r.rewriteList(b.Body)...)
		case *ast.SelectorExpr:
			r.selector(b)
		}
		return true
	})
}

func (r *rewriter) selector(s *ast.SelectorExpr) {
	id, ok := s.X.(*ast.Ident)
	if !ok || id.Obj != nil { // id.Obj != nil: a local variable shadows the package name
		return
	}
	path, ok := r.imports[id.Name]
	if !ok {
		return
	}
	m, ok := redirects[path]
	if !ok {
		return
	}
	rd, ok := m[s.Sel.Name]
	if !ok {
		return
	}
	if rd.onlyDir != "" && !strings.HasPrefix(r.rel, rd.onlyDir) {
		return
	}
	s.X = ast.NewIdent("verifsim")
	s.Sel = ast.NewIdent(rd.to)
	r.changed = true
	r.sites["redirect:"+path+"."+rd.to]++
}

// collectChanNames finds identifiers (fields, variables, parameters) declared with a
// channel type or initialised by make(chan ...), so that `range x` over them can be
// recognised without type checking.
func collectChanNames(f *ast.File, into map[string]bool) {
	ast.Inspect(f, func(x ast.Node) bool {
		switch n := x.(type) {
		case *ast.Field:
			if _, ok := n.Type.(*ast.ChanType); ok {
				for _, nm := range n.Names {
					into[nm.Name] = true
				}
			}
		case *ast.ValueSpec:
			if _, ok := n.Type.(*ast.ChanType); ok {
				for _, nm := range n.Names {
					into[nm.Name] = true
				}
			}
			for i, v := range n.Values {
				if isMakeChan(v) && i < len(n.Names) {
					into[n.Names[i].Name] = true
				}
			}
		case *ast.AssignStmt:
			for i, v := range n.Rhs {
				if isMakeChan(v) && i < len(n.Lhs) {
					if nm := lastName(n.Lhs[i]); nm != "" {
						into[nm] = true
					}
				}
			}
		case *ast.KeyValueExpr:
			if isMakeChan(n.Value) {
				if nm := lastName(n.Key); nm != "" {
					into[nm] = true
				}
			}
		}
		return true
	})
}

func isMakeChan(e ast.Expr) bool {
	c, ok := e.(*ast.CallExpr)
	if !ok || len(c.Args) == 0 {
		return false
	}
	if id, ok := c.Fun.(*ast.Ident); !ok || id.Name != "make" {
		return false
	}
	_, ok = c.Args[0].(*ast.ChanType)
	return ok
}

func usesImport(f *ast.File, name string) bool {
	used := false
	ast.Inspect(f, func(x ast.Node) bool {
		if s, ok := x.(*ast.SelectorExpr); ok {
			if id, ok := s.X.(*ast.Ident); ok && id.Name == name && id.Obj == nil {
				used = true
			}
		}
		return !used
	})
	return used
}

func processFile(fset *token.FileSet, repo, path string, chanNames map[string]bool, newPkg string) ([]byte, *rewriter, error) {
	src, err := os.ReadFile(path)
	if err != nil {
		return nil, nil, err
	}
	f, err := parser.ParseFile(fset, path, src, parser.ParseComments)
	if err != nil {
		return nil, nil, err
	}
	rel, _ := filepath.Rel(repo, path)
	r := &rewriter{fset: fset, rel: filepath.ToSlash(rel), imports: map[string]string{}, chanName: chanNames, sites: map[string]int{}, done: map[ast.Stmt]bool{}}
	for _, im := range f.Imports {
		p, _ := strconv.Unquote(im.Path.Value)
		name := filepath.Base(p)
		if im.Name != nil {
			name = im.Name.Name
		}
		r.imports[name] = p
	}
	for _, d := range f.Decls {
		switch x := d.(type) {
		case *ast.FuncDecl:
			if x.Body == nil {
				continue
			}
			r.walk(x)
			if x.Name.Name == "DidCancel" && x.Recv != nil {
				x.Body.List = append([]ast.Stmt{r.yield(x.Pos(), "cancelpoll")}, x.Body.List...)
			}
		case *ast.GenDecl:
			if x.Tok != token.IMPORT {
				r.walk(x)
			}
		}
	}
	if newPkg != "" {
		f.Name.Name = newPkg
		r.changed = true
	}
	if !r.changed {
		return nil, r, nil
	}
	// imports that lost their last use become blank imports
	for _, im := range f.Imports {
		p, _ := strconv.Unquote(im.Path.Value)
		name := filepath.Base(p)
		if im.Name != nil {
			name = im.Name.Name
		}
		if name == "_" || name == "." {
			continue
		}
		if !usesImport(f, name) {
			im.Name = ast.NewIdent("_")
		}
	}
	imp := &ast.ImportSpec{Name: ast.NewIdent("verifsim"), Path: &ast.BasicLit{Kind: token.STRING, Value: strconv.Quote(simImport)}}
	gd := &ast.GenDecl{Tok: token.IMPORT, Specs: []ast.Spec{imp}}
	f.Decls = append([]ast.Decl{gd}, f.Decls...)
	// keep only the comments before the package clause (build constraints); positions of
	// the others are meaningless after insertion
	var keep []*ast.CommentGroup
	for _, cg := range f.Comments {
		if cg.End() < f.Package {
			keep = append(keep, cg)
		}
	}
	f.Comments = keep
	var buf bytes.Buffer
	if err := format.Node(&buf, fset, f); err != nil {
		return nil, nil, err
	}
	out := buf.Bytes()
	if !usesVerifsim(out) {
		out = bytes.Replace(out, []byte("import verifsim \""+simImport+"\""), []byte("import _ \""+simImport+"\""), 1)
	}
	return out, r, nil
}

func usesVerifsim(src []byte) bool { return bytes.Contains(src, []byte("verifsim.")) }

func die(args ...interface{}) {
	fmt.Fprintln(os.Stderr, append([]interface{}{"simgen:"}, args...)...)
	os.Exit(2)
}

func main() {
	repo := flag.String("repo", "/repo", "")
	out := flag.String("out", "/verif/build", "")
	simrt := flag.String("simrt", "/verif/simrt", "")
	hooks := flag.String("hooks", "/verif/hooks", "")
	flag.Parse()

	overlay := map[string]string{}
	fset := token.NewFileSet()
	ctx := build.Default
	ctx.GOOS, ctx.GOARCH, ctx.CgoEnabled = "linux", "amd64", false

	var files []string
	for _, top := range []string{"internal", "pkg", "cmd"} {
		filepath.Walk(filepath.Join(*repo, top), func(p string, info os.FileInfo, err error) error {
			if err != nil || info.IsDir() || !strings.HasSuffix(p, ".go") || strings.HasSuffix(p, "_test.go") {
				return nil
			}
			if ok, _ := ctx.MatchFile(filepath.Dir(p), filepath.Base(p)); !ok {
				return nil
			}
			files = append(files, p)
			return nil
		})
	}
	sort.Strings(files)

	// pass 1: channel-typed names across the tree
	chanNames := map[string]bool{}
	for _, p := range files {
		f, err := parser.ParseFile(token.NewFileSet(), p, nil, 0)
		if err != nil {
			die(p, err)
		}
		collectChanNames(f, chanNames)
	}

	os.RemoveAll(filepath.Join(*out, "src"))
	hash := sha256.New()
	totals := map[string]int{}
	n := 0
	write := func(dst string, b []byte) {
		os.MkdirAll(filepath.Dir(dst), 0755)
		if err := os.WriteFile(dst, b, 0644); err != nil {
			die(err)
		}
		hash.Write([]byte(dst))
		hash.Write(b)
	}
	for _, p := range files {
		b, r, err := processFile(fset, *repo, p, chanNames, "")
		if err != nil {
			die(p, err)
		}
		for k, v := range r.sites {
			totals[k] += v
		}
		rel, _ := filepath.Rel(*repo, p)
		if b != nil {
			dst := filepath.Join(*out, "src", rel)
			write(dst, b)
			overlay[p] = dst
			n++
		}
		// the stdio service as a library: pkg/verifsvc
		if dir := filepath.ToSlash(filepath.Dir(rel)); dir == "cmd/esbuild" {
			base := filepath.Base(p)
			if base == "service.go" || base == "stdio_protocol.go" || base == "version.go" {
				b2, _, err := processFile(fset, *repo, p, chanNames, "verifsvc")
				if err != nil {
					die(p, err)
				}
				dst := filepath.Join(*out, "src", "pkg", "verifsvc", base)
				write(dst, b2)
				overlay[filepath.Join(*repo, "pkg", "verifsvc", base)] = dst
			}
		}
	}

	// the runtime as virtual package pkg/verifsim
	ents, err := os.ReadDir(*simrt)
	if err != nil {
		die(err)
	}
	for _, e := range ents {
		if strings.HasSuffix(e.Name(), ".go") && !strings.HasSuffix(e.Name(), "_test.go") {
			overlay[filepath.Join(*repo, "pkg", "verifsim", e.Name())] = filepath.Join(*simrt, e.Name())
			b, _ := os.ReadFile(filepath.Join(*simrt, e.Name()))
			hash.Write(b)
		}
	}
	// hook files: <hooks>/<dir with / replaced by __>/<file>.go -> <repo>/<dir>/<file>.go
	hents, _ := os.ReadDir(*hooks)
	for _, he := range hents {
		if !he.IsDir() {
			continue
		}
		target := strings.ReplaceAll(he.Name(), "__", "/")
		sub, _ := os.ReadDir(filepath.Join(*hooks, he.Name()))
		for _, e := range sub {
			if strings.HasSuffix(e.Name(), ".go") {
				src := filepath.Join(*hooks, he.Name(), e.Name())
				overlay[filepath.Join(*repo, target, e.Name())] = src
				b, _ := os.ReadFile(src)
				hash.Write(b)
			}
		}
	}

	j, _ := json.MarshalIndent(map[string]interface{}{"Replace": overlay}, "", " ")
	os.MkdirAll(*out, 0755)
	if err := os.WriteFile(filepath.Join(*out, "overlay.json"), j, 0644); err != nil {
		die(err)
	}
	keys := make([]string, 0, len(totals))
	for k := range totals {
		keys = append(keys, k)
	}
	sort.Strings(keys)
	info := map[string]interface{}{"files_rewritten": n, "sites": totals, "tree_hash": fmt.Sprintf("%x", hash.Sum(nil))[:16]}
	ij, _ := json.MarshalIndent(info, "", " ")
	os.WriteFile(filepath.Join(*out, "simgen.json"), ij, 0644)
	fmt.Printf("simgen: rewrote %d files, hash %s\n", n, info["tree_hash"])
}
