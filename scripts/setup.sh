#!/bin/bash
# Run once after a fresh restore, offline: builds the instrumenter and both harness
# binaries (warms the Go build cache so that the checks' incremental builds are fast).
set -e
ROOT=$(cd "$(dirname "$0")/.." && pwd)
. "$ROOT/scripts/env.sh"
cd "$ROOT"
mkdir -p build evidence replays
(cd simgen && go build -o simgen .)
./scripts/build.sh
./scripts/build.sh race
echo setup done
