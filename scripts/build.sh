#!/bin/bash
# build.sh [race]: instrument /repo's current working tree and build the harness binary.
# Everything is relative to this checkout of /verif (so a snapshot of it builds itself).
set -e
ROOT=$(cd "$(dirname "$0")/.." && pwd)
. "$ROOT/scripts/env.sh"
cd "$ROOT"
mkdir -p build
if [ ! -x simgen/simgen ] || [ simgen/main.go -nt simgen/simgen ]; then (cd simgen && go build -o simgen .) ; fi
./simgen/simgen -repo /repo -out "$ROOT/build" -simrt "$ROOT/simrt" -hooks "$ROOT/hooks" >/dev/null
cd harness
if [ "$1" = race ]; then
  go1.26.8 test -c -race -vet=off -overlay "$ROOT/build/overlay.json" -o "$ROOT/build/harness.race.test" .
else
  go1.26.8 test -c -vet=off -overlay "$ROOT/build/overlay.json" -o "$ROOT/build/harness.test" .
fi
