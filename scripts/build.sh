#!/bin/bash
# build.sh [race]: instrument /repo's current working tree and build the harness binary
set -e
. /verif/scripts/env.sh
cd /verif
mkdir -p build
if [ ! -x simgen/simgen ] || [ simgen/main.go -nt simgen/simgen ]; then (cd simgen && go build -o simgen .) ; fi
./simgen/simgen -repo /repo -out /verif/build -simrt /verif/simrt -hooks /verif/hooks >/dev/null
cd harness
if [ "$1" = race ]; then
  go1.26.8 test -c -race -vet=off -overlay /verif/build/overlay.json -o /verif/build/harness.race.test .
else
  go1.26.8 test -c -vet=off -overlay /verif/build/overlay.json -o /verif/build/harness.test .
fi
