#!/bin/bash
# build.sh [race]: instrument the repository's current working tree and build the harness
# binary. Everything is relative to this checkout of /verif (so a snapshot of it builds
# itself). VERIF_REPO (default /repo) selects the esbuild tree (used to run the checks
# against scratch worktrees with seeded changes without touching /repo).
set -e
ROOT=$(cd "$(dirname "$0")/.." && pwd)
. "$ROOT/scripts/env.sh"
REPO=${VERIF_REPO:-/repo}
cd "$ROOT"
mkdir -p build
if [ ! -x simgen/simgen ] || [ simgen/main.go -nt simgen/simgen ]; then (cd simgen && go build -o simgen .) ; fi
./simgen/simgen -repo "$REPO" -out "$ROOT/build" -simrt "$ROOT/simrt" -hooks "$ROOT/hooks" >/dev/null
sed "s#=> /repo#=> $REPO#" harness/go.mod > build/harness.go.mod
cp harness/go.sum build/harness.go.sum
cd harness
if [ "$1" = race ]; then
  go1.26.8 test -c -race -vet=off -modfile "$ROOT/build/harness.go.mod" -overlay "$ROOT/build/overlay.json" -o "$ROOT/build/harness.race.test" .
else
  go1.26.8 test -c -vet=off -modfile "$ROOT/build/harness.go.mod" -overlay "$ROOT/build/overlay.json" -o "$ROOT/build/harness.test" .
fi
