#!/bin/bash
# confirm-mutant.sh <mutdir> <worktree> <go test -run regex> [pkg]: independently confirms a seeded change:
# patch applies to a clean checkout, builds, the pinned suite passes with it, the demo fails with it and passes without it.
set -u
ROOT=$(cd "$(dirname "$0")/.." && pwd)
. "$ROOT/scripts/env.sh"
mut=$1; wt=$2; re=$3; pkg=${4:-./pkg/api/}
cd "$wt" || exit 2
git checkout -q -- . ; git clean -fdq
git apply "$mut/patch.diff" || { echo "PATCH DOES NOT APPLY"; exit 1; }
go build ./... || { echo "BUILD FAILS"; exit 1; }
if go test -vet=off -count=1 ./... > /tmp/confirm-suite-$(basename $mut).log 2>&1; then echo "suite with patch: PASS"; else echo "suite with patch: FAIL"; grep -v "^ok\|no test files" /tmp/confirm-suite-$(basename $mut).log | head -20; fi
for f in "$mut"/demo/*_test.go; do cp "$f" "$wt/${pkg#./}"; done
if timeout 900 go test -vet=off -count=1 -run "$re" $pkg > /tmp/confirm-demo-with-$(basename $mut).log 2>&1; then echo "demo with patch: PASS (unexpected)"; else echo "demo with patch: FAIL (expected)"; grep -E "^\s+---|FAIL|panic|DEADLOCK" /tmp/confirm-demo-with-$(basename $mut).log | head -8; fi
git apply -R "$mut/patch.diff"
if timeout 900 go test -vet=off -count=1 -run "$re" $pkg > /tmp/confirm-demo-without-$(basename $mut).log 2>&1; then echo "demo without patch: PASS (expected)"; else echo "demo without patch: FAIL (unexpected)"; tail -20 /tmp/confirm-demo-without-$(basename $mut).log; fi
git checkout -q -- . ; git clean -fdq
