#!/bin/bash
ROOT=$(cd "$(dirname "$0")/.." && pwd)
# runs every claimed check's quick command with default settings (what vp check does) and
# validates the evidence files
cd "$ROOT"
rc=0
for p in $(python3 -c "import json;print(' '.join(c['property_id'] for c in json.load(open('MANIFEST.json'))['checks']))"); do
  ./check $p quick 2>&1 | grep -E "^(VIOLATION|KNOWN|INFRA|REACH|C[0-9]+ quick)" | cut -c1-400
  [ ${PIPESTATUS[0]} -ne 0 ] && rc=1
done
python3-vt - <<'PY'
import json,jsonschema,glob
m=json.load(open('MANIFEST.json'))
jsonschema.validate(m, json.load(open('/root/.vp/MANIFEST.schema.json')))
s=json.load(open('/root/.vp/EVIDENCE.schema.json'))
for c in m['checks']:
    jsonschema.validate(json.load(open(c['evidence_file'])), s)
print('manifest and evidence valid')
PY
exit $rc
