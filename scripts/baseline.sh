#!/bin/bash
# Runs the repository's pinned test suite with the guard off (the tree as it is; the
# verification hooks live only in an -overlay used by /verif's own builds).
ROOT=$(cd "$(dirname "$0")/.." && pwd)
. "$ROOT/scripts/env.sh"
cd /repo && go test -mod=mod -vet=off -count=1 -timeout 25m ./... 
