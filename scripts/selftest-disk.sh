#!/bin/bash
# Differential validation of the simulated disk against the kernel (DESIGN.md 7.3)
ROOT=$(cd "$(dirname "$0")/.." && pwd)
. "$ROOT/scripts/env.sh"
cd "$ROOT" && ./scripts/build.sh || exit 2
VERIF_DISKTEST=1 VERIF_RUNS=${1:-500} $ROOT/build/harness.test -test.run '^TestDiskVsKernel$'
