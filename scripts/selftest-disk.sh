#!/bin/bash
# Differential validation of the simulated disk against the kernel (DESIGN.md 7.3)
. /verif/scripts/env.sh
cd /verif && ./scripts/build.sh || exit 2
VERIF_DISKTEST=1 VERIF_RUNS=${1:-500} /verif/build/harness.test -test.run '^TestDiskVsKernel$'
