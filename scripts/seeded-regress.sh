#!/bin/bash
# seeded-regress.sh [names...]: runs the quick check of the relevant property against every
# seeded change (or the named ones) on a scratch worktree of /repo (VERIF_REPO), never on
# /repo itself, and prints one line per change: caught / MISSED.
ROOT=$(cd "$(dirname "$0")/.." && pwd)
wt=${REGRESS_WT:-/tmp/regress-wt}
git -C /repo worktree remove --force $wt 2>/dev/null; rm -rf $wt
git -C /repo worktree add -q --detach $wt HEAD || exit 2
trap 'git -C /repo worktree remove --force '$wt' 2>/dev/null' EXIT
names=${@:-$(cd $ROOT/seeded && ls -d C* | sort)}
for n in $names; do
  prop=${n%%-*}; prop=${prop/x/}
  git -C $wt checkout -q -- . ; git -C $wt clean -fdq
  base=$(python3 -c "import json;print(json.load(open('$ROOT/seeded/$n/meta.json')).get('base_commit',''))" 2>/dev/null)
  if [ -n "$base" ]; then git -C $wt checkout -q --detach $base; else git -C $wt checkout -q --detach $(git -C /repo rev-parse HEAD); fi
  if ! git -C $wt apply $ROOT/seeded/$n/patch.diff 2>/dev/null; then echo "$n: patch does not apply"; continue; fi
  out=$(cd $ROOT && VERIF_REPO=$wt VERIF_EVIDENCE_DIR=/tmp/regress-ev VERIF_REPLAY_DIR=/tmp/regress-rp ./check $prop quick 2>&1); rc=$?
  n_v=$(echo "$out" | grep -c "^VIOLATION")
  cls=$(echo "$out" | grep "^  class=" | sed 's/ detail=.*//' | sort | uniq -c | sort -rn | head -2 | tr '\n' ' ')
  if [ $rc = 1 ]; then echo "$n: caught by $prop ($n_v violations; $cls)"; elif [ $rc = 0 ]; then echo "$n: MISSED by $prop"; else echo "$n: INFRA exit $rc: $(echo "$out" | tail -2 | tr '\n' ' ' | cut -c1-200)"; fi
done
