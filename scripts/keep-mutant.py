#!/usr/bin/env python3
# keep-mutant.py <mutdir> <name> <caught_by> <note>: stores a confirmed seeded change under /verif/seeded/<name>/
import json, os, shutil, sys
mut, name, caught, note = sys.argv[1:5]
dst = '/verif/seeded/' + name
os.makedirs(dst + '/demo', exist_ok=True)
shutil.copy(mut + '/patch.diff', dst + '/patch.diff')
for f in os.listdir(mut + '/demo'):
    shutil.copy(mut + '/demo/' + f, dst + '/demo/' + f)
meta = json.load(open(mut + '/meta.json'))
meta['origin'] = 'independent sub-agent given only the property text and a scratch worktree'
meta['confirmed_by_main_session'] = 'scripts/confirm-mutant.sh: patch applies to a clean checkout, go build ok, pinned suite passes with it, demo fails with it and passes without it'
meta['detected_by'] = caught
meta['detection_note'] = note
meta['ran'] = 'scripts/mutant.sh /verif/seeded/%s/patch.diff <property> (git -C /repo apply; ./check <property> quick; git -C /repo checkout -- .)' % name
json.dump(meta, open(dst + '/meta.json', 'w'), indent=1)
print('kept', dst)
