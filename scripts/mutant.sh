#!/bin/bash
ROOT=$(cd "$(dirname "$0")/.." && pwd)
# mutant.sh <patch.diff> <prop> [<prop>...] : apply a patch to /repo, run the quick checks, undo it
set -u
patch=$1; shift
cd /repo || exit 2
if ! git diff --quiet; then echo "repo working tree not clean"; exit 2; fi
git apply "$patch" || { echo "patch does not apply"; exit 2; }
trap 'git -C /repo checkout -q -- .' EXIT
for p in "$@"; do
  out=$(cd "$ROOT" && VERIF_EVIDENCE_DIR=/tmp/mutant-evidence VERIF_REPLAY_DIR=/tmp/mutant-replays ./check $p quick 2>&1)
  rc=$?
  echo "== $p exit=$rc"
  echo "$out" | grep -E "^(VIOLATION|KNOWN|INFRA|  class)" | cut -c1-400 | head -6
  echo "$out" | tail -1 | cut -c1-300
done
