#!/bin/bash
# try-mutant.sh <patch.diff> <prop> [<prop>...]: runs the quick checks against a scratch
# worktree of /repo's HEAD with the patch applied (VERIF_REPO), never touching /repo.
ROOT=$(cd "$(dirname "$0")/.." && pwd)
patch=$1; shift
wt=${TRY_WT:-/tmp/try-wt-$$}
git -C /repo worktree remove --force $wt 2>/dev/null; rm -rf $wt
git -C /repo worktree add -q --detach $wt HEAD || exit 2
trap 'git -C /repo worktree remove --force '$wt' 2>/dev/null' EXIT
git -C $wt apply $patch || { echo "patch does not apply"; exit 2; }
for p in "$@"; do
  out=$(cd $ROOT && VERIF_REPO=$wt VERIF_EVIDENCE_DIR=/tmp/try-ev-$$ VERIF_REPLAY_DIR=/tmp/try-rp-$$ ./check $p quick 2>&1); rc=$?
  echo "== $p exit=$rc"
  echo "$out" | grep -E "^(VIOLATION|KNOWN|INFRA)" | head -3
  echo "$out" | grep "^  class=" | sed 's/ detail=.*//' | sort | uniq -c | sort -rn | head -4
  echo "$out" | grep "^  class=" | head -1 | cut -c1-700
  echo "$out" | tail -1 | cut -c1-300
done
rm -rf /tmp/try-ev-$$ 
