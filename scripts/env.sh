# sourced by every script: offline Go environment
export GOFLAGS=-mod=mod GOPROXY=off GOSUMDB=off GOTOOLCHAIN=local CARGO_NET_OFFLINE=true
export GOCACHE=${GOCACHE:-/root/.cache/go-build}
