#!/bin/bash
# Determinism self-test of the simulator (DESIGN.md section 7.1): the same VERIF_SEED must
# produce the same executions (schedule trace hashes of every bubble, generated inputs,
# step counts) in separate processes and under different GOMAXPROCS.
# usage: selftest-determinism.sh [runs-per-process] [seeds...]
ROOT=$(cd "$(dirname "$0")/.." && pwd)
. "$ROOT/scripts/env.sh"
cd "$ROOT"
runs=${1:-12}; shift
seeds=${@:-"1 7 42"}
./scripts/build.sh || exit 2
./scripts/build.sh race || exit 2
out=$ROOT/build/selftest; rm -rf $out; mkdir -p $out
fail=0
for prop in C08 C09 C16 C17 C18 C19 C20; do
  bin=$ROOT/build/harness.test; [ $prop = C20 ] && bin=$ROOT/build/harness.race.test
  for seed in $seeds; do
    pids=""
    for procs in 1 4 16; do for rep in a b; do
      ( GOMAXPROCS=$procs VERIF_PROP=$prop VERIF_SEED=$seed VERIF_RUNS=$runs VERIF_NOSHRINK=1 VERIF_WORKER=0 VERIF_WORKERS=1 \
        VERIF_REPLAY_DIR=$out VERIF_SIGLOG=$out/$prop-$seed-$procs$rep.sig GORACE="halt_on_error=0 exitcode=0 log_path=$out/race" \
        $bin -test.run '^TestWorker$' > $out/$prop-$seed-$procs$rep.log 2>&1 ) &
      pids="$pids $!"
    done; done
    wait $pids
    ref=$out/$prop-$seed-1a.sig
    same=yes
    for f in $out/$prop-$seed-*.sig; do
      if ! cmp -s $ref $f; then
        same=NO
        if [ $prop = C20 ]; then
          # known and documented (DESIGN 2.7): the real watcher copies a Go map into a slice
          # before its seeded shuffle, so the order of its polls follows map iteration order
          echo "INFO: $f differs from $ref (watch-mode runs: watcher poll order follows Go map iteration)"
        else
          echo "NONDETERMINISTIC: $f differs from $ref"; diff $ref $f | head -5; fail=1
        fi
      fi
    done
    echo "$prop seed $seed: $(wc -l < $ref) runs x 6 processes (GOMAXPROCS 1/4/16 x 2) identical=$same"
  done
done
exit $fail
