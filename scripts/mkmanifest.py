#!/usr/bin/env python3
# Generates /verif/MANIFEST.json (kept in one place so that it stays consistent).
import json, subprocess
commits = subprocess.run(['git','-C','/repo','log','--format=%h %s','740f2ad..HEAD'],capture_output=True,text=True).stdout.strip().splitlines()

NA_REASON = "pure function of (source text, options) with no schedule, clock, fault or history in it; deciding it needs an execution/parsing oracle and input generation (differential/metamorphic testing), not deterministic simulation - see DESIGN.md section 5"
NA = {
 "C01": "Transform preserves behaviour: " + NA_REASON,
 "C02": "Bundling preserves module-graph semantics: " + NA_REASON,
 "C03": "Minification preserves behaviour: " + NA_REASON,
 "C04": "Tree shaking: " + NA_REASON,
 "C05": "Lowering: " + NA_REASON,
 "C06": "TypeScript erasure: " + NA_REASON,
 "C07": "Source maps: pure relation between one input and one output; the parallel chunk join it mentions is exercised, as far as scheduling can matter, by C08's byte comparison of .map outputs across schedules",
 "C10": "Code splitting: " + NA_REASON + " (its 'references only chunks that exist' clause is incidentally exercised by C18's reference check, which is not a claim on C10)",
 "C11": "Resolution agrees with Node: pure function of a directory tree whose oracle is Node itself, which is not available as a model here",
 "C12": "CSS cascade: " + NA_REASON,
 "C13": "Valid, stable output: " + NA_REASON,
 "C14": "Output syntax within target: " + NA_REASON,
 "C15": "Renaming preserves binding: " + NA_REASON,
}

CLAIMS = {
 "C08": dict(
   text="Seeded search over goroutine schedules (6 scheduler policies over the instrumented tree: every go statement, channel operation, wait-group wait, mutex acquisition and OS call is a scheduling point), file-load completion orders, unique-key prefixes (random and adversarial), directory-listing orders, project locations, concurrent sibling builds and repeated rebuilds; every variant's OutputFiles (paths, bytes, hashes), metafile, mangle cache and diagnostics (text, location, notes, order) must equal a canonical-schedule reference byte for byte. Sampling, not proof; each failure is minimised and replayable from its tape.",
   ref="4.1", tech="deterministic simulation: seeded scheduler over instrumented esbuild, simulated disk/PRNG, differential comparison against a canonical-schedule reference"),
 "C09": dict(
   text="Seeded edit histories (18 edit kinds incl. same-length edits, create/delete/rename, shadowing x.ts, nearer node_modules, file<->directory, package.json and tsconfig flips, syntax errors introduced and repaired, reordered imports; files appearing in and vanishing from directories that a glob-style import()/require() enumerates, starting missing, empty or populated) on a simulated disk with seeded mtime granularity, in-place vs replace writes and clock advances around the 3 s modification-key safety gap; after every step Rebuild() on one long-lived context must equal, byte for byte, a fresh build of the same disk snapshot run in its own bubble, and in builds that write, every output the rebuild reports must afterwards be on the simulated disk with the reported bytes (as it is after the fresh build); in watch-mode runs every step that changes the fresh result must be reported dirty by the real watch predicates of the previous build; in watcher runs the real polling watcher goroutine runs on the simulated clock while edits land at arbitrary moments (also mid-build), and within 12 simulated seconds after the last edit the latest result delivered to an end callback must equal a fresh build of the final tree.",
   ref="4.2", tech="deterministic simulation: edit-history generator on a simulated disk and clock, rebuild-vs-fresh-build reference model, real watch predicates through a virtual in-package accessor"),
 "C16": dict(
   text="The fault- and schedule-dependent part of C16: builds of generated multi-file projects during which the simulated disk fails, tears, truncates, bit-flips, NUL-fills or splices invalid UTF-8 into reads of any input kind (JS/TS/JSX/CSS/JSON/package.json/tsconfig.json/source-map comments), fails directory reads (when the directory is opened or when its entries are read), stats and readlinks, turns files into dangling or self-referring symbolic links, and during which a client cancels at a seeded scheduling point or exactly before a chosen poll of the cancel flag (including a sweep over every poll of one build); the build must return within a step budget, report no 'panic:'/'Internal error' diagnostic, leave no blocked goroutine behind (bubble deadlock detection), leave no slot of the process-wide open-file limiter taken when the run ends, and after the disk is healed a rebuild on the same context and process must equal a clean build. Input generation as such (fuzzing all byte strings) is not claimed.",
   ref="4.3", tech="deterministic simulation with storage-fault injection (read errors, corruption, vanishing files), cancellation points, single-fault sweeps, bubble deadlock/leak detection"),
 "C17": dict(
   text="The simulated disk's mutation log of every build (api.Build, Rebuild histories on one context, cli.Run) is checked against the reported OutputFiles: every write is a reported output with the reported bytes, every reported output lies inside the output directory (no generated name template contains a parent-directory segment), no write lands on an input that this build loaded - also not under another name through a symbolic link - unless overwriting was allowed, never two contents for one path; write-disabled, cancelled and failed-before-writing builds write nothing; removals only hit files an earlier build of the same context wrote and the current one does not produce. Explored under write ENOSPC/EIO/EACCES, mkdir and remove faults, cancellation at seeded points and exactly before chosen polls of the cancel flag, outputs deleted or modified by the user between rebuilds, glob entry points that appear and disappear, output locations that coincide with sources (output directory = source directory, an output directory reached through a symbolic link into the sources, a TypeScript entry point whose output lands on a hand-written .js input of another entry point, outbase deeper than an entry point).",
   ref="4.4", tech="deterministic simulation: simulated disk operation log as oracle, write/mkdir/remove fault injection, cancellation sweeps, rebuild histories"),
 "C18": dict(
   text="Over edit histories (incl. comment-only edits and reordering of import() expressions inside one array literal) and single-option changes (public path, name templates, source-map mode, legal-comment mode) with hashed name templates: across all builds of a run a hashed output path never carries two different byte contents; every import/require/url()/sourceMappingURL/legal-comment reference found in an output by an independent scanner names a file emitted by the same build; the unique-key prefix injected through the PRNG seam (random and adversarial values) occurs in no output, metafile or diagnostic. One genuine defect is recorded as a known finding (swapping two import() expressions with identical surrounding text keeps the hashed name; see known-findings.json).",
   ref="4.5", tech="deterministic simulation: history of edits/option changes with a path->content table, independent reference scanner, injected unique-key prefix"),
 "C19": dict(
   text="The I/O-accounting clauses of C19 on every simulated build (fresh and incremental, all schedules): metafile outputs = OutputFiles with exact byte lengths (also on disk when writing), inputs are files the build actually read with the size it read in this build and include every module the generator's model says is reachable, every non-external import path is a listed input/output, entry points match, per-output input bytes never exceed the file size, no duplicate keys, the per-module marker invariant (marker present in output <=> bytesInOutput > 0), the segment identity in unminified bundles (the code between a module's path comment and the next one - for the last module of an ES module output: the export clause - has exactly bytesInOutput bytes; profiles in which one chunk or asset is referenced from outputs at different directory depths), the path style of every path, import kinds and external flags of inputs against the generator's model, the import statements of the emitted code against the outputs' imports (also the kind of every external package import against the form the code uses), and the metafile of every incremental rebuild against the metafile of a fresh build of the same tree; profiles with more than 256 files (compact metafile), paths with spaces, import attributes, external packages for an engine without import(). Export lists are not claimed.",
   ref="4.6", tech="deterministic simulation: metafile cross-checked against OutputFiles, the simulated disk's read/write log and the generator model over rebuild histories"),
 "C20": dict(
   text="Seeded interleavings of 2-4 client tasks issuing Rebuild/Cancel/Dispose/Watch/Serve/Edit/Sleep and HTTP requests against shared contexts with plugins that yield, sleep, fail, block until released or re-enter Resolve, executed under the race detector with the scheduler's own synchronisation hidden from it; history checks: termination (deadlock = no runnable task and no timer), every Rebuild result equals the canonical result of exactly one overlapping build and is internally consistent, freshness per file as register linearizability (porcupine), Cancel/Dispose return only after the running build's end callbacks, no callbacks after Dispose, callback ordering within a build; plus the real stdio service loop over simulated stdin/stdout with fragmentation, EOF at arbitrary offsets and EPIPE: every request answered exactly once with its own id, no interleaved packets, bursts of rebuild/cancel/dispose sent without waiting, a host that holds its callback answers, no cancel response while a callback of that context is unanswered; plus Serve: the real serve_other.go and net/http server on a simulated network (in-bubble pipes) with GET/HEAD of outputs and serve-directory files, event streams read for a seeded time and dropped, abandoned requests, occupied ports: a 200 carries exactly one current build's bytes (in progress or within the reuse window), 503/404 only when such a build failed/lacks the file, nothing served after Dispose, OnRequest exactly once per answered request, event-stream events = differences of consecutive successful builds in order and exactly once. HTTPS is not exercised.",
   ref="4.7", tech="deterministic simulation: seeded client/plugin/HTTP-client interleavings under -race, history checkers incl. porcupine linearizability, simulated stdio transport with stream faults, simulated network for the real net/http server"),
}

import os, sys
done = [p for p in sorted(CLAIMS) if os.path.exists('/verif/harness/%s.go' % p.lower())]
checks = []
for p in done:
    c = CLAIMS[p]
    checks.append({
      "property_id": p,
      "quick_cmd": "./check %s quick" % p,
      "thorough_cmd": "./check %s thorough" % p,
      "evidence_file": "/verif/evidence/%s.json" % p,
      "replay_cmd_template": "./check --replay {path}",
      "engine": "esbuild-dst",
      "level_claimed": {"category": "exploration", "text": c["text"], "design_ref": "DESIGN.md section " + c["ref"]},
      "level_note": "Trusted base: Go 1.26.8 testing/synctest (bubble clock, quiescence), the syntactic instrumenter /verif/simgen (semantics preservation checked by running the pinned suite on the instrumented tree in pass-through mode), the simulated disk (validated against the kernel), Go's unseeded map iteration order. Sampling: a clean batch is evidence, not proof.",
      "technique": c["tech"],
    })
na = [{"property_id": k, "reason": v} for k, v in sorted(NA.items())]
for p in sorted(CLAIMS):
    if p not in done:
        na.append({"property_id": p, "reason": "claimed by DESIGN.md section %s but its check is not built yet in this commit (work in progress; will move to checks)" % CLAIMS[p]["ref"]})
m = {
 "version": 1,
 "setup_cmd": "./scripts/setup.sh",
 "hooks": {
   "guard": "verif-overlay (no source file of /repo carries a hook: /verif/simgen rewrites the working tree into /verif/build/src at check time and the harness is built with `go test -c -overlay /verif/build/overlay.json`; without the overlay the tree is the shipped one)",
   "enable": "scripts/build.sh: simgen -repo /repo -out /verif/build ...; cd harness && GOTOOLCHAIN=local go1.26.8 test -c [-race] -vet=off -overlay /verif/build/overlay.json",
   "baseline_off_cmd": "./scripts/baseline.sh",
   "source_commits": [],
   "add_only": True
 },
 "engines": [{"name": "esbuild-dst", "path": "/verif", "serves_properties": done, "kind_free_text": "deterministic simulation with fault injection: source-to-source instrumenter (simgen) + simulator runtime (simrt: seeded scheduler inside a testing/synctest bubble, simulated disk with fault plans and operation log, simulated PRNG/clock/stdio) + harness (tape engine, shrinker, replay, project generator and edit model, reference models, one scenario per property)"}],
 "checks": checks,
 "not_applicable": na,
 "notes": "Genuine defects found so far are repaired by separate 'fix:' commits in /repo (%s) and recorded in /verif/known-findings.json; see DESIGN.md. Exit 2 from a check means infrastructure trouble, never a pass or a violation." % "; ".join(commits),
}
json.dump(m, open('/verif/MANIFEST.json','w'), indent=1)
print("claimed:", done)
