#!/bin/bash
# Instrumentation preserves semantics (DESIGN.md 7.2): the repository's whole pinned
# suite is run against the instrumented tree in pass-through mode (no simulation active:
# every verifsim call forwards to the real OS, Yield is a no-op).
ROOT=$(cd "$(dirname "$0")/.." && pwd)
. "$ROOT/scripts/env.sh"
cd "$ROOT" && ./scripts/build.sh || exit 2
cd /repo && go1.26.8 test -overlay $ROOT/build/overlay.json -vet=off -count=1 -timeout 25m ./internal/... ./pkg/... ./cmd/... 2>&1 | grep -v "no test files"
exit ${PIPESTATUS[0]}
