package verifsim

import (
	"math/rand"
	"sort"
)

// SortStrings is inserted by simgen after the watcher collected map keys into a slice
// (see simgen); outside a simulation the slice is left as it is.
func SortStrings(s []string) {
	if act() != nil {
		sort.Strings(s)
	}
}

// The redirected math/rand calls (bundler.generateUniqueKeyPrefix and the watcher's
// scan-order shuffle).

func RandSeed(seed int64) {
	if act() == nil {
		rand.Seed(seed)
	}
}

func RandRead(b []byte) (int, error) {
	s := act()
	if s == nil {
		return rand.Read(b)
	}
	if len(s.cfg.UniqueKey) > 0 {
		for i := range b {
			b[i] = s.cfg.UniqueKey[i%len(s.cfg.UniqueKey)]
		}
		return len(b), nil
	}
	for i := range b {
		if s.cfg.Rand != nil {
			b[i] = byte(s.cfg.Rand.Next(256))
		} else {
			b[i] = byte(i*37 + 11)
		}
	}
	return len(b), nil
}

func RandInt31n(n int32) int32 {
	s := act()
	if s == nil {
		return rand.Int31n(n)
	}
	if s.cfg.Rand != nil {
		return int32(s.cfg.Rand.Next(int(n)))
	}
	return 0
}
