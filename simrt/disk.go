package verifsim

// The simulated disk: an in-memory inode tree that implements exactly the operating
// system calls esbuild makes (simgen redirects them here), with seeded fault
// injection and a global operation log. It is a stub of the kernel file system and is
// validated differentially against the real one (harness: TestDiskVsKernel).
//
// Unlike the scheduler core this file is ordinary Go: all state is guarded by a real
// mutex taken with race handling on. That adds happens-before edges between
// successive disk operations of different tasks (a deliberate, documented loss of
// race-detector sensitivity; see DESIGN.md §2.3).

import (
	"io"
	"os"
	"path"
	"runtime"
	"sort"
	"strings"
	"sync"
	"syscall"
	"time"

	"golang.org/x/sys/unix"
)

const (
	kFile = iota
	kDir
	kSymlink
)

type inode struct {
	ino      uint64
	kind     int
	data     []byte
	target   string
	perm     os.FileMode
	mtime    time.Time
	children map[string]*inode
}

// Fault kinds.
const (
	FReadErr    = iota // ReadFile / Open of a file fails with EIO, EACCES or EMFILE
	FVanish            // an existing file or directory reports ENOENT
	FCorrupt           // ReadFile returns mutated bytes (bit flip, truncation, NUL fill, bad UTF-8, ...)
	FReaddirErr        // reading a directory fails
	FStatErr           // lstat/stat fails with EIO or EACCES
	FWriteErr          // WriteFile fails (ENOSPC leaving a prefix, EIO, EACCES)
	FMkdirErr          // Mkdir fails with EACCES or EROFS
	FRemoveErr         // Remove fails with EACCES
	NumFaults
)

var FaultNames = [NumFaults]string{"read_error", "vanish", "corrupt_read", "readdir_error", "stat_error", "write_error", "mkdir_error", "remove_error"}

// FaultPlan decides, per eligible operation, whether a fault is delivered.
type FaultPlan struct {
	Tape   *Tape
	Rate   [NumFaults]int // per 1024 eligible operations
	Filter func(path string) bool
	// Sweep mode: deliver exactly one fault of kind AtKind at the At-th eligible
	// operation (1-based) for that kind; Rate is ignored when At > 0.
	At     int
	AtKind int
	seen   [NumFaults]int
}

type Op struct {
	Seq    int
	Task   int
	Epoch  int
	Kind   string // open readfile readdir lstat stat ustat readlink mkdir remove writefile getwd / edit-*
	Path   string
	Err    string
	N      int    // bytes read or written
	Sum    uint64 // FNV-1a of the bytes read or written
	Caller string // first caller outside verifsim and internal/fs
	Fault  string
	At     time.Duration // simulated time since disk creation
	Step   int           // scheduler step count (same clock as Event.Seq)
}

type Disk struct {
	mu      sync.Mutex
	root    *inode
	nextIno uint64
	Cwd     string
	Gran    time.Duration // mtime granularity
	Offset  time.Duration // added to the bubble clock (monotone across bubbles, forward jumps)
	Salt    uint64        // permutes directory listing order
	Epoch   int
	Log     []Op
	NoLog   bool
	Plan    *FaultPlan
	Fired   [NumFaults]int
	Counts  map[string]int // operations by kind
	base    time.Time
}

var simEpoch = time.Date(2000, 1, 1, 0, 0, 0, 0, time.UTC)

func NewDisk() *Disk {
	d := &Disk{Cwd: "/", Gran: 1, Counts: map[string]int{}, nextIno: 100, base: simEpoch}
	d.root = &inode{ino: 2, kind: kDir, perm: 0755, children: map[string]*inode{}, mtime: simEpoch}
	return d
}

// ---------- clock ----------

// WallNow replaces time.Now in internal/fs (the modification-key safety gap).
func WallNow() time.Time {
	if s := act(); s != nil && s.cfg.Disk != nil {
		return s.cfg.Disk.Now()
	}
	return time.Now()
}

// Now is the disk's wall clock: the bubble clock plus the disk's forward offset.
func (d *Disk) Now() time.Time {
	var t time.Time
	if act() != nil {
		t = time.Now()
	} else {
		t = simEpoch
	}
	return t.Add(d.Offset)
}

func (d *Disk) stamp() time.Time {
	t := d.Now()
	if d.Gran > 1 {
		t = t.Truncate(d.Gran)
	}
	return t
}

// ---------- path walking ----------

func clean(p string) string {
	if p == "" {
		return ""
	}
	return path.Clean(p)
}

func (d *Disk) abs(p string) string {
	if !strings.HasPrefix(p, "/") {
		p = d.Cwd + "/" + p
	}
	return path.Clean(p)
}

// walk resolves p; follow says whether a symlink in the final component is followed.
func (d *Disk) walk(p string, follow bool, depth int) (*inode, syscall.Errno) {
	if p == "" {
		return nil, syscall.ENOENT
	}
	if depth > 40 {
		return nil, syscall.ELOOP
	}
	trailing := len(p) > 1 && strings.HasSuffix(p, "/")
	p = d.abs(p)
	cur := d.root
	if p == "/" {
		return cur, 0
	}
	parts := strings.Split(p[1:], "/")
	curPath := ""
	for i, name := range parts {
		if cur.kind != kDir {
			return nil, syscall.ENOTDIR
		}
		next, ok := cur.children[name]
		if !ok {
			return nil, syscall.ENOENT
		}
		last := i == len(parts)-1
		if next.kind == kSymlink && (!last || follow || trailing) {
			target := next.target
			if !strings.HasPrefix(target, "/") {
				target = curPath + "/" + target
			}
			rest := strings.Join(parts[i+1:], "/")
			if rest != "" {
				target = target + "/" + rest
			}
			return d.walk(path.Clean(target), follow, depth+1)
		}
		cur = next
		curPath = curPath + "/" + name
	}
	if trailing && cur.kind != kDir {
		return nil, syscall.ENOTDIR
	}
	return cur, 0
}

// canon returns the real (symlink-free) path of an existing directory path.
func (d *Disk) canon(p string, depth int) (string, syscall.Errno) {
	if depth > 40 {
		return "", syscall.ELOOP
	}
	p = d.abs(p)
	if p == "/" {
		return "/", 0
	}
	cur := d.root
	real := ""
	parts := strings.Split(p[1:], "/")
	for i, name := range parts {
		if cur.kind != kDir {
			return "", syscall.ENOTDIR
		}
		next, ok := cur.children[name]
		if !ok {
			return "", syscall.ENOENT
		}
		if next.kind == kSymlink {
			target := next.target
			if !strings.HasPrefix(target, "/") {
				target = real + "/" + target
			}
			if rest := strings.Join(parts[i+1:], "/"); rest != "" {
				target += "/" + rest
			}
			return d.canon(path.Clean(target), depth+1)
		}
		cur = next
		real += "/" + name
	}
	return real, 0
}

// RealPath resolves the symbolic links in the longest existing prefix of p (like
// `realpath -m`): the path under which a file written to p really ends up.
func (d *Disk) RealPath(p string) string {
	d.mu.Lock()
	defer d.mu.Unlock()
	p = d.abs(p)
	rest := ""
	for dir := p; ; {
		if real, e := d.canon(dir, 0); e == 0 {
			return path.Clean(real + "/" + rest)
		}
		if dir == "/" {
			return p
		}
		rest = path.Base(dir) + "/" + rest
		dir = path.Dir(dir)
	}
}

// createTarget resolves the path at which an O_CREAT open of p creates or opens a
// file: symlinks in the final component are followed even when they dangle.
func (d *Disk) createTarget(p string) (*inode, string, syscall.Errno) {
	p = d.abs(p)
	for depth := 0; ; depth++ {
		if depth > 40 {
			return nil, "", syscall.ELOOP
		}
		if p == "/" {
			return nil, "", syscall.EISDIR
		}
		dir, base := path.Split(p)
		rdir, e := d.canon(path.Clean(dir), 0)
		if e != 0 {
			return nil, "", e
		}
		parent, e2 := d.walk(rdir, true, 0)
		if e2 != 0 {
			return nil, "", e2
		}
		if parent.kind != kDir {
			return nil, "", syscall.ENOTDIR
		}
		n, ok := parent.children[base]
		if ok && n.kind == kSymlink {
			if strings.HasPrefix(n.target, "/") {
				p = path.Clean(n.target)
			} else {
				p = path.Clean(rdir + "/" + n.target)
			}
			continue
		}
		return parent, base, 0
	}
}

func (d *Disk) parentOf(p string) (*inode, string, syscall.Errno) {
	p = d.abs(p)
	if p == "/" {
		return nil, "", syscall.EEXIST
	}
	dir, base := path.Split(p)
	parent, e := d.walk(path.Clean(dir), true, 0)
	if e != 0 {
		return nil, "", e
	}
	if parent.kind != kDir {
		return nil, "", syscall.ENOTDIR
	}
	return parent, base, 0
}

// ---------- logging and faults ----------

func fnv(b []byte) uint64 {
	h := uint64(14695981039346656037)
	for _, c := range b {
		h = (h ^ uint64(c)) * 1099511628211
	}
	return h
}

func callerName() string {
	// the first few frames outside the simulator and internal/fs, innermost first,
	// joined by "<" (e.g. "cache.(*FSCache).ReadFile<bundler.parseFile<bundler.(*scanner).maybeParseFile.func1")
	var pcs [32]uintptr
	n := runtime.Callers(3, pcs[:])
	frames := runtime.CallersFrames(pcs[:n])
	out := ""
	count := 0
	for {
		f, more := frames.Next()
		fn := f.Function
		if fn != "" && !strings.Contains(fn, "/pkg/verifsim.") && !strings.Contains(fn, "/internal/fs.") && !strings.HasPrefix(fn, "runtime.") {
			if i := strings.LastIndex(fn, "/"); i >= 0 {
				fn = fn[i+1:]
			}
			if out != "" {
				out += "<"
			}
			out += fn
			count++
			if count >= 4 {
				return out
			}
		}
		if !more {
			return out
		}
	}
}

func (d *Disk) record(kind, p string, err error, data []byte, fault string) {
	d.Counts[kind]++
	if d.NoLog {
		return
	}
	op := Op{Seq: len(d.Log), Task: taskIDNoRace(), Epoch: d.Epoch, Kind: kind, Path: p, Fault: fault, At: d.Now().Sub(d.base), Step: Now()}
	if err != nil {
		op.Err = errnoName(err)
	}
	if data != nil {
		op.N = len(data)
		op.Sum = fnv(data)
	}
	op.Caller = callerName()
	d.Log = append(d.Log, op)
}

//go:norace
func taskIDNoRace() int {
	if act() == nil {
		return -1
	}
	return TaskID()
}

func errnoName(err error) string {
	var e error = err
	if pe, ok := e.(*os.PathError); ok {
		e = pe.Err
	}
	if se, ok := e.(*os.SyscallError); ok {
		e = se.Err
	}
	if en, ok := e.(syscall.Errno); ok {
		switch en {
		case syscall.ENOENT:
			return "ENOENT"
		case syscall.ENOTDIR:
			return "ENOTDIR"
		case syscall.EISDIR:
			return "EISDIR"
		case syscall.EACCES:
			return "EACCES"
		case syscall.EIO:
			return "EIO"
		case syscall.ENOSPC:
			return "ENOSPC"
		case syscall.EMFILE:
			return "EMFILE"
		case syscall.EROFS:
			return "EROFS"
		case syscall.EEXIST:
			return "EEXIST"
		case syscall.ELOOP:
			return "ELOOP"
		case syscall.EINVAL:
			return "EINVAL"
		case syscall.ENOTEMPTY:
			return "ENOTEMPTY"
		}
	}
	return err.Error()
}

// want decides whether a fault of the given kind is delivered to this operation.
func (d *Disk) want(kind int, p string) bool {
	pl := d.Plan
	if pl == nil {
		return false
	}
	if pl.Filter != nil && !pl.Filter(p) {
		return false
	}
	if pl.At > 0 {
		if kind != pl.AtKind {
			return false
		}
		pl.seen[kind]++
		if pl.seen[kind] == pl.At {
			d.Fired[kind]++
			return true
		}
		return false
	}
	r := pl.Rate[kind]
	if r <= 0 {
		return false
	}
	if pl.Tape.Next(1024) < r {
		d.Fired[kind]++
		return true
	}
	return false
}

func (d *Disk) pickErrno(choices ...syscall.Errno) syscall.Errno {
	if d.Plan == nil || d.Plan.Tape == nil {
		return choices[0]
	}
	return choices[d.Plan.Tape.Next(len(choices))]
}

// Corrupt returns a mutated copy of data, driven by the tape.
func Corrupt(t *Tape, data []byte) ([]byte, string) {
	out := append([]byte(nil), data...)
	n := len(out)
	pos := 0
	if n > 0 {
		pos = t.Next(n)
	}
	switch t.Next(9) {
	case 0:
		if n > 0 {
			out[pos] ^= 1 << uint(t.Next(8))
		}
		return out, "bitflip"
	case 1:
		return out[:pos], "truncate"
	case 2:
		end := pos + 1 + t.Next(16)
		if end > n {
			end = n
		}
		for i := pos; i < end; i++ {
			out[i] = 0
		}
		return out, "nulfill"
	case 3:
		bad := [][]byte{{0xff}, {0xc0, 0x80}, {0xed, 0xa0, 0x80}, {0xf4, 0x90, 0x80, 0x80}, {0xe2, 0x82}}
		b := bad[t.Next(len(bad))]
		return append(append(append([]byte(nil), out[:pos]...), b...), out[pos:]...), "badutf8"
	case 4:
		// duplicate a region (torn write: tail of another version appended)
		end := pos + t.Next(64)
		if end > n {
			end = n
		}
		return append(append(append([]byte(nil), out[:end]...), out[pos:end]...), out[end:]...), "dupregion"
	case 5:
		open := []string{"(", "[", "{", "`${", "/*", "\"", "'", "<a>", "((", "=>{", "\\u", "\\u{", "0x", "1e", "@", "#"}
		s := open[t.Next(len(open))]
		reps := 1 + t.Next(3)
		if t.Next(4) == 0 {
			reps = 200 + t.Next(2000)
		}
		ins := []byte(strings.Repeat(s, reps))
		return append(append(append([]byte(nil), out[:pos]...), ins...), out[pos:]...), "insert"
	case 6:
		// swap two bytes
		if n > 1 {
			q := t.Next(n)
			out[pos], out[q] = out[q], out[pos]
		}
		return out, "swap"
	case 7:
		// delete a short range
		end := pos + 1 + t.Next(8)
		if end > n {
			end = n
		}
		return append(append([]byte(nil), out[:pos]...), out[end:]...), "delete"
	default:
		// replace one byte by a structural character
		chars := []byte("{}[]()\"'`\\/<>:;,.*=!&|?@#\n\r\t\x00\x7f\xe2")
		if n > 0 {
			out[pos] = chars[t.Next(len(chars))]
		}
		return out, "replace"
	}
}

// ---------- the redirected calls ----------

func (d *Disk) simDisk() bool { return d != nil }

//go:norace
func cur() *Disk {
	if s := act(); s != nil {
		return s.cfg.Disk
	}
	return nil
}

type fileInfo struct {
	name  string
	size  int64
	mode  os.FileMode
	mtime time.Time
	ino   uint64
}

func (fi *fileInfo) Name() string       { return fi.name }
func (fi *fileInfo) Size() int64        { return fi.size }
func (fi *fileInfo) Mode() os.FileMode  { return fi.mode }
func (fi *fileInfo) ModTime() time.Time { return fi.mtime }
func (fi *fileInfo) IsDir() bool        { return fi.mode.IsDir() }
func (fi *fileInfo) Sys() interface{}   { return nil }

func (n *inode) info(name string) *fileInfo {
	fi := &fileInfo{name: name, mtime: n.mtime, ino: n.ino}
	switch n.kind {
	case kFile:
		fi.mode = n.perm
		fi.size = int64(len(n.data))
	case kDir:
		fi.mode = os.ModeDir | n.perm
		fi.size = 4096
	case kSymlink:
		fi.mode = os.ModeSymlink | 0777
		fi.size = int64(len(n.target))
	}
	return fi
}

// File is the subset of *os.File that internal/fs uses.
type File struct {
	real *os.File
	d    *Disk
	n    *inode
	name string
	off  int64
	done bool
}

func Open(p string) (*File, error) {
	d := cur()
	if d == nil {
		f, err := os.Open(p)
		if err != nil {
			return nil, err
		}
		return &File{real: f}, nil
	}
	Yield("disk", "open")
	d.mu.Lock()
	defer d.mu.Unlock()
	n, e := d.walk(p, true, 0)
	var err error
	fault := ""
	if e != 0 {
		err = &os.PathError{Op: "open", Path: p, Err: e}
	} else if n.kind == kDir && d.want(FReaddirErr, p) {
		fault = "readdir_error"
		err = &os.PathError{Op: "open", Path: p, Err: d.pickErrno(syscall.EACCES, syscall.EMFILE, syscall.EIO)}
	} else if n.kind == kFile && d.want(FReadErr, p) {
		fault = "read_error"
		err = &os.PathError{Op: "open", Path: p, Err: d.pickErrno(syscall.EACCES, syscall.EMFILE, syscall.EIO)}
	} else if d.want(FVanish, p) {
		fault = "vanish"
		err = &os.PathError{Op: "open", Path: p, Err: syscall.ENOENT}
	}
	d.record("open", d.abs(p), err, nil, fault)
	if err != nil {
		return nil, err
	}
	return &File{d: d, n: n, name: p}, nil
}

func (f *File) Close() error {
	if f.real != nil {
		return f.real.Close()
	}
	return nil
}

func (f *File) Stat() (os.FileInfo, error) {
	if f.real != nil {
		return f.real.Stat()
	}
	f.d.mu.Lock()
	defer f.d.mu.Unlock()
	return f.n.info(path.Base(f.name)), nil
}

func (f *File) Seek(off int64, whence int) (int64, error) {
	if f.real != nil {
		return f.real.Seek(off, whence)
	}
	switch whence {
	case io.SeekStart:
		f.off = off
	case io.SeekCurrent:
		f.off += off
	case io.SeekEnd:
		f.d.mu.Lock()
		f.off = int64(len(f.n.data)) + off
		f.d.mu.Unlock()
	}
	return f.off, nil
}

func (f *File) Read(b []byte) (int, error) {
	if f.real != nil {
		return f.real.Read(b)
	}
	f.d.mu.Lock()
	defer f.d.mu.Unlock()
	if f.n.kind == kDir {
		return 0, &os.PathError{Op: "read", Path: f.name, Err: syscall.EISDIR}
	}
	if f.off >= int64(len(f.n.data)) {
		return 0, io.EOF
	}
	n := copy(b, f.n.data[f.off:])
	f.off += int64(n)
	return n, nil
}

func (f *File) Readdirnames(count int) ([]string, error) {
	if f.real != nil {
		return f.real.Readdirnames(count)
	}
	d := f.d
	d.mu.Lock()
	defer d.mu.Unlock()
	if f.n.kind != kDir {
		err := &os.PathError{Op: "readdirent", Path: f.name, Err: syscall.ENOTDIR}
		d.record("readdir", d.abs(f.name), err, nil, "")
		return []string{}, err
	}
	if f.done {
		return []string{}, nil
	}
	if d.want(FReaddirErr, d.abs(f.name)) {
		// the directory could be opened but reading its entries fails
		err := &os.PathError{Op: "readdirent", Path: f.name, Err: d.pickErrno(syscall.EIO, syscall.EACCES)}
		d.record("readdir", d.abs(f.name), err, nil, "readdir_error")
		return []string{}, err
	}
	f.done = true
	names := d.listLocked(f.n)
	d.record("readdir", d.abs(f.name), nil, nil, "")
	return names, nil
}

// listLocked returns the names in a seeded, kernel-like arbitrary order.
func (d *Disk) listLocked(n *inode) []string {
	names := make([]string, 0, len(n.children))
	for name := range n.children {
		names = append(names, name)
	}
	sort.Slice(names, func(i, j int) bool {
		hi, hj := fnv([]byte(names[i]))^d.Salt, fnv([]byte(names[j]))^d.Salt
		hi *= 0x9E3779B97F4A7C15
		hj *= 0x9E3779B97F4A7C15
		if hi != hj {
			return hi < hj
		}
		return names[i] < names[j]
	})
	return names
}

func statLike(op string, follow bool, p string) (os.FileInfo, error) {
	d := cur()
	Yield("disk", op)
	d.mu.Lock()
	defer d.mu.Unlock()
	n, e := d.walk(p, follow, 0)
	var err error
	fault := ""
	if e != 0 {
		err = &os.PathError{Op: op, Path: p, Err: e}
	} else if d.want(FStatErr, p) {
		fault = "stat_error"
		err = &os.PathError{Op: op, Path: p, Err: d.pickErrno(syscall.EACCES, syscall.EIO)}
	} else if d.want(FVanish, p) {
		fault = "vanish"
		err = &os.PathError{Op: op, Path: p, Err: syscall.ENOENT}
	}
	d.record(op, d.abs(p), err, nil, fault)
	if err != nil {
		return nil, err
	}
	return n.info(path.Base(p)), nil
}

func Lstat(p string) (os.FileInfo, error) {
	if cur() == nil {
		return os.Lstat(p)
	}
	return statLike("lstat", false, p)
}

func Stat(p string) (os.FileInfo, error) {
	if cur() == nil {
		return os.Stat(p)
	}
	return statLike("stat", true, p)
}

func UnixStat(p string, st *unix.Stat_t) error {
	d := cur()
	if d == nil {
		return unix.Stat(p, st)
	}
	Yield("disk", "ustat")
	d.mu.Lock()
	defer d.mu.Unlock()
	n, e := d.walk(p, true, 0)
	var err error
	fault := ""
	if e != 0 {
		err = e
	} else if d.want(FStatErr, p) {
		fault = "stat_error"
		err = d.pickErrno(syscall.EACCES, syscall.EIO)
	} else if d.want(FVanish, p) {
		fault = "vanish"
		err = syscall.ENOENT
	}
	d.record("ustat", d.abs(p), err, nil, fault)
	if err != nil {
		return err
	}
	*st = unix.Stat_t{}
	st.Ino = n.ino
	st.Uid = 1000
	st.Mtim = unix.NsecToTimespec(n.mtime.UnixNano())
	switch n.kind {
	case kFile:
		st.Size = int64(len(n.data))
		st.Mode = unix.S_IFREG | uint32(n.perm.Perm())
	case kDir:
		st.Size = 4096
		st.Mode = unix.S_IFDIR | uint32(n.perm.Perm())
	}
	return nil
}

func Readlink(p string) (string, error) {
	d := cur()
	if d == nil {
		return os.Readlink(p)
	}
	Yield("disk", "readlink")
	d.mu.Lock()
	defer d.mu.Unlock()
	n, e := d.walk(p, false, 0)
	var err error
	if e != 0 {
		err = &os.PathError{Op: "readlink", Path: p, Err: e}
	} else if n.kind != kSymlink {
		err = &os.PathError{Op: "readlink", Path: p, Err: syscall.EINVAL}
	} else if d.want(FStatErr, d.abs(p)) {
		err = &os.PathError{Op: "readlink", Path: p, Err: d.pickErrno(syscall.EIO, syscall.EACCES)}
		d.record("readlink", d.abs(p), err, nil, "stat_error")
		return "", err
	}
	d.record("readlink", d.abs(p), err, nil, "")
	if err != nil {
		return "", err
	}
	return n.target, nil
}

func Getwd() (string, error) {
	d := cur()
	if d == nil {
		return os.Getwd()
	}
	return d.Cwd, nil
}

func ReadFile(p string) ([]byte, error) {
	d := cur()
	if d == nil {
		return os.ReadFile(p)
	}
	Yield("disk", "readfile")
	d.mu.Lock()
	defer d.mu.Unlock()
	n, e := d.walk(p, true, 0)
	var err error
	var data []byte
	fault := ""
	switch {
	case e != 0:
		err = &os.PathError{Op: "open", Path: p, Err: e}
	case n.kind == kDir:
		err = &os.PathError{Op: "read", Path: p, Err: syscall.EISDIR}
	case d.want(FReadErr, p):
		fault = "read_error"
		if d.Plan.Tape != nil && d.Plan.Tape.Next(2) == 1 {
			err = &os.PathError{Op: "read", Path: p, Err: syscall.EIO}
		} else {
			err = &os.PathError{Op: "open", Path: p, Err: d.pickErrno(syscall.EACCES, syscall.EMFILE)}
		}
	case d.want(FVanish, p):
		fault = "vanish"
		err = &os.PathError{Op: "open", Path: p, Err: syscall.ENOENT}
	case d.want(FCorrupt, p):
		var how string
		data, how = Corrupt(d.Plan.Tape, n.data)
		fault = "corrupt_read:" + how
	default:
		data = append([]byte(nil), n.data...)
	}
	d.record("readfile", d.abs(p), err, data, fault)
	return data, err
}

func WriteFile(p string, data []byte, perm os.FileMode) error {
	d := cur()
	if d == nil {
		return os.WriteFile(p, data, perm)
	}
	Yield("disk", "writefile")
	d.mu.Lock()
	defer d.mu.Unlock()
	err, fault, written := d.writeLocked(p, data, perm, true)
	d.record("writefile", d.abs(p), err, written, fault)
	return err
}

func (d *Disk) writeLocked(p string, data []byte, perm os.FileMode, faults bool) (error, string, []byte) {
	parent, base, e := d.createTarget(p)
	if e != 0 {
		return &os.PathError{Op: "open", Path: p, Err: e}, "", nil
	}
	n, exists := parent.children[base]
	if exists && n.kind == kDir {
		return &os.PathError{Op: "open", Path: p, Err: syscall.EISDIR}, "", nil
	}
	content := append([]byte(nil), data...)
	var err error
	fault := ""
	if faults && d.want(FWriteErr, p) {
		fault = "write_error"
		switch d.Plan.Tape.Next(3) {
		case 0: // no space: a prefix reaches the disk
			k := 0
			if len(data) > 0 {
				k = d.Plan.Tape.Next(len(data))
			}
			content = content[:k]
			err = &os.PathError{Op: "write", Path: p, Err: syscall.ENOSPC}
		case 1: // I/O error after truncation
			content = content[:0]
			err = &os.PathError{Op: "write", Path: p, Err: syscall.EIO}
		default: // nothing touched
			return &os.PathError{Op: "open", Path: p, Err: syscall.EACCES}, fault, nil
		}
	}
	if !exists {
		n = &inode{ino: d.nextIno, kind: kFile, perm: perm.Perm() &^ 022}
		d.nextIno++
		parent.children[base] = n
		parent.mtime = d.stamp()
	}
	n.data = content
	n.mtime = d.stamp()
	return err, fault, content
}

func Mkdir(p string, perm os.FileMode) error {
	d := cur()
	if d == nil {
		return os.Mkdir(p, perm)
	}
	Yield("disk", "mkdir")
	d.mu.Lock()
	defer d.mu.Unlock()
	var err error
	fault := ""
	parent, base, e := d.parentOf(p)
	if e != 0 {
		err = &os.PathError{Op: "mkdir", Path: p, Err: e}
	} else if _, ok := parent.children[base]; ok {
		err = &os.PathError{Op: "mkdir", Path: p, Err: syscall.EEXIST}
	} else if d.want(FMkdirErr, p) {
		fault = "mkdir_error"
		err = &os.PathError{Op: "mkdir", Path: p, Err: d.pickErrno(syscall.EACCES, syscall.EROFS, syscall.ENOSPC)}
	} else {
		parent.children[base] = &inode{ino: d.nextIno, kind: kDir, perm: perm.Perm() &^ 022, children: map[string]*inode{}, mtime: d.stamp()}
		d.nextIno++
		parent.mtime = d.stamp()
	}
	d.record("mkdir", d.abs(p), err, nil, fault)
	return err
}

func Remove(p string) error {
	d := cur()
	if d == nil {
		return os.Remove(p)
	}
	Yield("disk", "remove")
	d.mu.Lock()
	defer d.mu.Unlock()
	var err error
	fault := ""
	parent, base, e := d.parentOf(p)
	if e != 0 {
		err = &os.PathError{Op: "remove", Path: p, Err: e}
	} else if n, ok := parent.children[base]; !ok {
		err = &os.PathError{Op: "remove", Path: p, Err: syscall.ENOENT}
	} else if n.kind == kDir && len(n.children) > 0 {
		err = &os.PathError{Op: "remove", Path: p, Err: syscall.ENOTEMPTY}
	} else if d.want(FRemoveErr, p) {
		fault = "remove_error"
		err = &os.PathError{Op: "remove", Path: p, Err: syscall.EACCES}
	} else {
		delete(parent.children, base)
		parent.mtime = d.stamp()
	}
	d.record("remove", d.abs(p), err, nil, fault)
	return err
}

// ---------- harness-side editing API (never yields, never faults) ----------

func (d *Disk) lockEdit(kind, p string, data []byte) func() {
	d.mu.Lock()
	return func() {
		d.Counts["edit-"+kind]++
		if !d.NoLog {
			op := Op{Seq: len(d.Log), Task: -1, Epoch: d.Epoch, Kind: "edit-" + kind, Path: p, At: d.Now().Sub(d.base), Step: Now()}
			if data != nil {
				op.N = len(data)
				op.Sum = fnv(data)
			}
			d.Log = append(d.Log, op)
		}
		d.mu.Unlock()
	}
}

func (d *Disk) mkdirAllLocked(p string) *inode {
	p = d.abs(p)
	curN := d.root
	if p == "/" {
		return curN
	}
	for _, name := range strings.Split(p[1:], "/") {
		next, ok := curN.children[name]
		if ok && next.kind == kSymlink {
			if t, e := d.walk(p, true, 0); e == 0 {
				return t
			}
		}
		if !ok {
			next = &inode{ino: d.nextIno, kind: kDir, perm: 0755, children: map[string]*inode{}, mtime: d.stamp()}
			d.nextIno++
			curN.children[name] = next
			curN.mtime = d.stamp()
		}
		if next.kind != kDir {
			return nil
		}
		curN = next
	}
	return curN
}

func (d *Disk) MkdirAll(p string) {
	defer d.lockEdit("mkdir", p, nil)()
	d.mkdirAllLocked(p)
}

// PutFile creates or overwrites a file. inPlace keeps the inode (an editor that
// truncates and rewrites); otherwise the file is replaced by a new inode (write to a
// temporary file and rename).
func (d *Disk) PutFile(p string, data []byte, inPlace bool) {
	defer d.lockEdit("put", p, data)()
	p = d.abs(p)
	dir, base := path.Split(p)
	parent := d.mkdirAllLocked(path.Clean(dir))
	if parent == nil {
		return
	}
	n, ok := parent.children[base]
	if ok && n.kind == kDir {
		return
	}
	if !ok || !inPlace || n.kind != kFile {
		n = &inode{ino: d.nextIno, kind: kFile, perm: 0644}
		d.nextIno++
		parent.children[base] = n
		parent.mtime = d.stamp()
	}
	n.data = append([]byte(nil), data...)
	n.mtime = d.stamp()
}

// Touch updates the modification time only.
func (d *Disk) Touch(p string) {
	defer d.lockEdit("touch", p, nil)()
	if n, e := d.walk(p, true, 0); e == 0 {
		n.mtime = d.stamp()
	}
}

// LinkTarget returns the target of the symbolic link at p ("" if it is none).
func (d *Disk) LinkTarget(p string) string {
	d.mu.Lock()
	defer d.mu.Unlock()
	n, e := d.walk(p, false, 0)
	if e != 0 || n.kind != kSymlink {
		return ""
	}
	return n.target
}

func (d *Disk) Symlink(target, p string) {
	defer d.lockEdit("symlink", p, []byte(target))()
	p = d.abs(p)
	dir, base := path.Split(p)
	parent := d.mkdirAllLocked(path.Clean(dir))
	if parent == nil {
		return
	}
	parent.children[base] = &inode{ino: d.nextIno, kind: kSymlink, target: target, mtime: d.stamp()}
	d.nextIno++
	parent.mtime = d.stamp()
}

// RemoveAll deletes a file or a whole directory tree.
func (d *Disk) RemoveAll(p string) {
	defer d.lockEdit("remove", p, nil)()
	parent, base, e := d.parentOf(p)
	if e != 0 {
		return
	}
	if _, ok := parent.children[base]; ok {
		delete(parent.children, base)
		parent.mtime = d.stamp()
	}
}

// PruneEmptyDirs removes p's parent directories, innermost first, while they are
// empty (stops at stopAt).
func (d *Disk) PruneEmptyDirs(p string, stopAt string) {
	defer d.lockEdit("prune", p, nil)()
	p = d.abs(p)
	for {
		dir := path.Dir(p)
		if dir == "/" || dir == stopAt || !strings.HasPrefix(dir, stopAt+"/") {
			return
		}
		n, e := d.walk(dir, false, 0)
		if e != 0 || n.kind != kDir || len(n.children) > 0 {
			return
		}
		parent, base, e2 := d.parentOf(dir)
		if e2 != 0 {
			return
		}
		delete(parent.children, base)
		parent.mtime = d.stamp()
		p = dir
	}
}

func (d *Disk) Rename(from, to string) {
	defer d.lockEdit("rename", from+" -> "+to, nil)()
	fp, fb, e := d.parentOf(from)
	if e != 0 {
		return
	}
	n, ok := fp.children[fb]
	if !ok {
		return
	}
	to = d.abs(to)
	dir, base := path.Split(to)
	tp := d.mkdirAllLocked(path.Clean(dir))
	if tp == nil {
		return
	}
	delete(fp.children, fb)
	tp.children[base] = n
	fp.mtime = d.stamp()
	tp.mtime = d.stamp()
}

// Get returns the content of a regular file (following symlinks).
func (d *Disk) Get(p string) ([]byte, bool) {
	d.mu.Lock()
	defer d.mu.Unlock()
	n, e := d.walk(p, true, 0)
	if e != 0 || n.kind != kFile {
		return nil, false
	}
	return append([]byte(nil), n.data...), true
}

// Exists reports what is at p without following a final symlink: "", "file", "dir", "symlink".
func (d *Disk) Kind(p string) string {
	d.mu.Lock()
	defer d.mu.Unlock()
	n, e := d.walk(p, false, 0)
	if e != 0 {
		return ""
	}
	return [...]string{"file", "dir", "symlink"}[n.kind]
}

// Files lists every regular file and symlink (path -> content / "-> target"), sorted.
func (d *Disk) Files() (paths []string, contents map[string]string) {
	d.mu.Lock()
	defer d.mu.Unlock()
	contents = map[string]string{}
	var rec func(prefix string, n *inode)
	rec = func(prefix string, n *inode) {
		names := make([]string, 0, len(n.children))
		for name := range n.children {
			names = append(names, name)
		}
		sort.Strings(names)
		for _, name := range names {
			c := n.children[name]
			p := prefix + "/" + name
			switch c.kind {
			case kFile:
				paths = append(paths, p)
				contents[p] = string(c.data)
			case kSymlink:
				paths = append(paths, p)
				contents[p] = "-> " + c.target
			case kDir:
				rec(p, c)
			}
		}
	}
	rec("", d.root)
	return
}

func cloneInode(n *inode) *inode {
	c := *n
	if n.children != nil {
		c.children = make(map[string]*inode, len(n.children))
		for k, v := range n.children {
			c.children[k] = cloneInode(v)
		}
	}
	return &c
}

// Snapshot returns an independent copy of the tree (same inode numbers and times,
// empty log, no fault plan). The copy's clock continues where this one stands.
func (d *Disk) Snapshot() *Disk {
	d.mu.Lock()
	defer d.mu.Unlock()
	c := &Disk{root: cloneInode(d.root), nextIno: d.nextIno, Cwd: d.Cwd, Gran: d.Gran, Salt: d.Salt, Counts: map[string]int{}, base: d.base}
	c.Offset = d.Now().Sub(simEpoch)
	return c
}

// TakeLog returns and clears the operation log.
func (d *Disk) TakeLog() []Op {
	d.mu.Lock()
	defer d.mu.Unlock()
	l := d.Log
	d.Log = nil
	return l
}

func (d *Disk) LogLen() int {
	d.mu.Lock()
	defer d.mu.Unlock()
	return len(d.Log)
}

func (d *Disk) SetPlan(p *FaultPlan) {
	d.mu.Lock()
	d.Plan = p
	d.mu.Unlock()
}

func (d *Disk) SetEpoch(e int) {
	d.mu.Lock()
	d.Epoch = e
	d.mu.Unlock()
}

// AdvanceClock moves the disk's wall clock forward without letting bubble time pass.
func (d *Disk) AdvanceClock(by time.Duration) {
	d.mu.Lock()
	d.Offset += by
	d.mu.Unlock()
}
