//go:build !race

package verifsim

func raceDisable() {}
func raceEnable()  {}
