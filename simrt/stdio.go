package verifsim

import "os"

// Stdio is the simulated stdin/stdout of the stdio service.
type Stdio struct{}

type stdinT struct{}
type stdoutT struct{}

// Stdin and Stdout replace os.Stdin / os.Stdout in cmd/esbuild/service.go.
var Stdin = &stdinT{}
var Stdout = &stdoutT{}

func (*stdinT) Read(b []byte) (int, error) {
	return os.Stdin.Read(b)
}

func (*stdoutT) Write(b []byte) (int, error) {
	return os.Stdout.Write(b)
}

// Exit replaces os.Exit in cmd/esbuild/service.go.
func Exit(code int) {
	os.Exit(code)
}
