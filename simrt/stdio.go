package verifsim

import (
	"io"
	"os"
	"runtime"
	"syscall"
)

// Stdio is the simulated stdin/stdout of the stdio service: two in-bubble byte pipes
// with seeded fragmentation, EOF at an arbitrary byte offset and EPIPE. The harness's
// protocol client sits at the other end.
type Stdio struct {
	in       chan []byte
	out      chan []byte
	rest     []byte
	Frag     *Tape // fragment sizes
	Epipe    bool  // writes fail from now on
	Exited   int   // 1 + exit code once the service called os.Exit
	inClosed bool
	BytesIn  int
	BytesOut int
	Reads    int
	ShortReads int
	Coalesced  int
	eofPending bool
}

func (io_ *Stdio) init() {
	io_.in = make(chan []byte, 1<<14)
	io_.out = make(chan []byte, 1<<14)
}

type stdinT struct{}
type stdoutT struct{}

// Stdin and Stdout replace os.Stdin / os.Stdout in cmd/esbuild/service.go.
var Stdin = &stdinT{}
var Stdout = &stdoutT{}

//go:norace
func curStdio() *Stdio {
	if s := act(); s != nil {
		return s.cfg.Stdio
	}
	return nil
}

func (*stdinT) Read(b []byte) (int, error) {
	st := curStdio()
	if st == nil {
		return os.Stdin.Read(b)
	}
	Yield("stdio", "read<")
	if len(st.rest) == 0 && st.eofPending {
		return 0, io.EOF
	}
	if len(st.rest) == 0 {
		frag, ok := <-st.in
		Yield("stdio", "read>")
		if !ok {
			return 0, io.EOF
		}
		st.rest = frag
	}
	// A read may also return bytes of several writes at once (the tail of one packet,
	// whole packets, the head of the next): seeded coalescing of what is already queued.
	for len(st.rest) < len(b) && st.Frag != nil && st.Frag.Next(3) != 0 {
		select {
		case more, ok := <-st.in:
			if !ok {
				// EOF is delivered by the next read
				st.eofPending = true
				goto done
			}
			st.rest = append(st.rest, more...)
			st.Coalesced++
			continue
		default:
		}
		break
	}
done:
	n := copy(b, st.rest)
	st.rest = st.rest[n:]
	st.Reads++
	return n, nil
}

func (*stdoutT) Write(b []byte) (int, error) {
	st := curStdio()
	if st == nil {
		return os.Stdout.Write(b)
	}
	Yield("stdio", "write")
	if st.Epipe {
		return 0, &os.PathError{Op: "write", Path: "/dev/stdout", Err: syscall.EPIPE}
	}
	st.BytesOut += len(b)
	st.out <- append([]byte(nil), b...)
	return len(b), nil
}

// Exit replaces os.Exit in cmd/esbuild/service.go. In a simulation the calling task
// ends; the harness treats the session as over.
func Exit(code int) {
	st := curStdio()
	if st == nil {
		os.Exit(code)
	}
	st.Exited = code + 1
	runtime.Goexit()
}

// ---- the client's side ----

// Send delivers b to the service's stdin in seeded fragments (1 byte ... everything).
func (st *Stdio) Send(b []byte) {
	for len(b) > 0 {
		n := len(b)
		switch st.Frag.Next(6) {
		case 1:
			n = 1
		case 2:
			n = 1 + st.Frag.Next(8)
		case 3:
			n = 1 + st.Frag.Next(64)
		case 4:
			n = 1 + st.Frag.Next(len(b))
		case 5:
			n = 4 // exactly the length prefix
		}
		if n > len(b) {
			n = len(b)
		}
		if n < len(b) {
			st.ShortReads++
		}
		Yield("stdio", "send")
		if st.inClosed {
			return
		}
		st.in <- append([]byte(nil), b[:n]...)
		st.BytesIn += n
		b = b[n:]
	}
}

// CloseIn closes the service's stdin (EOF after everything sent so far).
func (st *Stdio) CloseIn() {
	if !st.inClosed {
		st.inClosed = true
		close(st.in)
	}
}

// CloseOut is called by the harness when the service loop has returned.
func (st *Stdio) CloseOut() { close(st.out) }

// Recv blocks until the service wrote something; ok=false when the service loop ended.
func (st *Stdio) Recv() ([]byte, bool) {
	Yield("stdio", "recv<")
	b, ok := <-st.out
	Yield("stdio", "recv>")
	return b, ok
}

// TryRecv returns what the service has written so far, if anything.
func (st *Stdio) TryRecv() ([]byte, bool, bool) {
	Yield("stdio", "tryrecv")
	select {
	case b, ok := <-st.out:
		return b, true, ok
	default:
		return nil, false, true
	}
}
