package verifsim

import "time"

// A lock-free-for-the-race-detector event log for harness history checks: entries are
// written by //go:norace code into a fixed array while race synchronisation handling is
// off, so logging neither adds happens-before edges between esbuild's goroutines nor
// is itself reported.

const maxEvents = 1 << 16

type Event struct {
	Seq  int // scheduler step count when the event was logged (global, monotone)
	N    int // position in the log (total order)
	Task int
	Kind string
	A, B int
	S    string
	T    string
	At   int64 // simulated (bubble) time in nanoseconds
}

//go:norace
func LogEvent(kind string, a, b int, s1, s2 string) int {
	s := act()
	if s == nil {
		return -1
	}
	raceDisable()
	t := s.current()
	at := time.Now().UnixNano()
	s.mu.Lock()
	n := s.nevents
	if n < maxEvents {
		s.events[n] = Event{Seq: s.Steps, N: n, Task: t.id, Kind: kind, A: a, B: b, S: s1, T: s2, At: at}
		s.nevents++
	}
	s.mu.Unlock()
	raceEnable()
	return n
}

// Events returns a deep copy of the log (call after Run has returned). The copy is made
// by uninstrumented code so that strings built by simulated tasks are never read by
// instrumented harness code without a happens-before edge the race detector knows.
//
//go:norace
func (s *Sim) Events() []Event {
	out := make([]Event, s.nevents)
	for i := 0; i < s.nevents; i++ {
		e := s.events[i]
		out[i] = Event{Seq: e.Seq, N: e.N, Task: e.Task, Kind: cloneStr(e.Kind), A: e.A, B: e.B, S: cloneStr(e.S), T: cloneStr(e.T), At: e.At}
	}
	return out
}

//go:norace
func cloneStr(x string) string {
	b := make([]byte, len(x))
	for i := 0; i < len(x); i++ {
		b[i] = x[i]
	}
	return string(b)
}

// Steps so far (a global logical clock for history checks).
//
//go:norace
func Now() int {
	s := act()
	if s == nil {
		return 0
	}
	return s.Steps
}
