//go:build race

package verifsim

import "runtime"

func raceDisable() { runtime.RaceDisable() }
func raceEnable()  { runtime.RaceEnable() }
