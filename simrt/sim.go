// Package verifsim is the deterministic-simulation runtime that the instrumented
// esbuild tree (see /verif/simgen) calls into. It is injected into the build as the
// virtual package github.com/evanw/esbuild/pkg/verifsim through `go test -overlay`;
// nothing of it exists in /repo.
//
// With no simulation active every entry point forwards to the real operating system
// ("pass-through"), so the instrumented tree behaves exactly like the shipped one.
//
// Rules for the scheduler core (this file): every function that runs while race
// synchronisation handling is disabled is //go:norace and uses no map, append, copy,
// fmt or sync.Pool consumer (the runtime helpers behind those are instrumented
// regardless of the caller). Fixed-size arrays and hand-written loops only.
package verifsim

import (
	"runtime"
	"sync"
	"sync/atomic"
	"testing"
	"testing/synctest"
	"time"
)

const maxTasks = 8192
const traceKeep = 96

// Tape is a recorded stream of bounded choices. In record mode values come from a
// xorshift generator and are stored; in replay mode stored values are returned and 0
// once the tape is exhausted (0 = "the simplest choice" everywhere, which is what
// makes tape-level shrinking meaningful).
type Tape struct {
	Rec    []uint32
	Pos    int
	Replay bool
	rng    uint64
}

func NewTape(seed uint64, capacity int) *Tape {
	return &Tape{Rec: make([]uint32, capacity), rng: seed*0x9E3779B97F4A7C15 + 0x2545F4914F6CDD1D}
}

func ReplayTape(rec []uint32) *Tape {
	return &Tape{Rec: rec, Replay: true}
}

// Recorded returns the choices made so far.
func (t *Tape) Recorded() []uint32 {
	if t.Replay {
		return t.Rec
	}
	return t.Rec[:t.Pos]
}

//go:norace
func (t *Tape) raw() uint64 {
	t.rng ^= t.rng >> 12
	t.rng ^= t.rng << 25
	t.rng ^= t.rng >> 27
	return t.rng * 2685821657736338717
}

// Next returns a choice in [0,n).
//
//go:norace
func (t *Tape) Next(n int) int {
	if n <= 1 {
		n = 1
	}
	if t.Replay {
		if t.Pos < len(t.Rec) {
			v := int(t.Rec[t.Pos] % uint32(n))
			t.Pos++
			return v
		}
		t.Pos++
		return 0
	}
	v := int((t.raw() >> 11) % uint64(n))
	if t.Pos < len(t.Rec) {
		t.Rec[t.Pos] = uint32(v)
	}
	t.Pos++
	return v
}

type task struct {
	id    int
	goid  uint64
	wake  chan struct{}
	site  string
	kind  string
	prio  uint32
	state int // 0 running, 1 parked, 2 lockwait
}

type TraceEntry struct {
	Task int
	Site string
	Kind string
}

// Scheduling policies.
const (
	PolicyLowest = iota // canonical: always the lowest logical id
	PolicyRandom
	PolicyHighest
	PolicySticky // keep running the same task with probability 3/4
	PolicyPCT    // random priorities, a few priority change points
	PolicyRoundRobin
	PolicyStall // one task (a "slow node") runs only when nothing else is runnable; the others at random
	NumPolicies
)

type Config struct {
	Sched    *Tape
	Policy   int
	Disk     *Disk
	MaxSteps int
	// DrainSeconds: simulated seconds the scheduler lets pass after the root task has
	// returned so that timers (recent-build expiry, watcher) can fire and exit.
	DrainSeconds int
	Rand         *Tape // source for the redirected math/rand calls
	UniqueKey    []byte
	Stdio        *Stdio
	// StallSites: with PolicyStall, the tasks that are parked at one of these sites
	// ("file.go:line") are the slow ones instead of one task chosen by id (directed
	// exploration: "the goroutine that has just passed this point is descheduled")
	StallSites []string
	// OpenFileLimit: capacity of esbuild's open-file limiter in this run (0 = the shipped 32);
	// a tuning knob that is randomised so that correctness never depends on one value
	OpenFileLimit int
}

type Sim struct {
	cfg     Config
	mu      sync.Mutex
	tasks   [maxTasks]*task
	ntasks  int
	parked  [maxTasks]*task
	nparked int
	lockw   [maxTasks]*task
	nlockw  int
	kick    chan struct{}
	done    bool
	last    int

	// measured
	Steps          int
	ChoicePoints   int // steps at which >= 2 tasks were runnable
	MaxRunnable    int
	TraceHash      uint64
	Trace          [traceKeep]TraceEntry
	NTrace         int
	Tasks          int
	Panic          interface{}
	BudgetExceeded bool
	SimTime        time.Duration
	pctChange      [4]int
	stallID        int
	salt           uint32
	events         []Event
	nevents        int

	// trigger: the n-th Yield of a given kind releases the tasks parked in WaitTrigger
	// and makes the scheduler run one of them next
	trigKind  string
	trigN     int
	trigCount int
	trigFired bool
	trigw     [64]*task
	ntrigw    int
	force     int

	// simulated sync.Cond waiters
	condw  [256]condWaiter
	ncondw int
}

type condWaiter struct {
	c *sync.Cond
	t *task
}

var active *Sim

// Progress counts scheduler steps over the life of the process (read by the worker's
// watchdog, which runs outside any bubble).
var progress int64

func Progress() int64 { return atomic.LoadInt64(&progress) }

// act returns the running simulation. It is uninstrumented on purpose: goroutines that
// outlive a run (e.g. after a reported deadlock) may still call into the runtime while
// the next run starts, and that must never show up as a race of the code under test.
//
//go:norace
func act() *Sim { return active }

// OpenFileLimit returns the capacity the open-file limiter has in the running simulation.
//
//go:norace
func OpenFileLimit() int {
	if s := active; s != nil && s.cfg.OpenFileLimit > 0 {
		return s.cfg.OpenFileLimit
	}
	return 32
}

// Active reports whether a simulation is running (false = pass-through).
//
//go:norace
func Active() bool { return active != nil }

//go:norace
func goid() uint64 {
	var buf [64]byte
	n := runtime.Stack(buf[:], false)
	var id uint64
	for i := len("goroutine "); i < n && buf[i] >= '0' && buf[i] <= '9'; i++ {
		id = id*10 + uint64(buf[i]-'0')
	}
	return id
}

//go:norace
func (s *Sim) current() *task {
	g := goid()
	s.mu.Lock()
	for i := s.ntasks - 1; i >= 0; i-- {
		if s.tasks[i].goid == g {
			t := s.tasks[i]
			s.mu.Unlock()
			return t
		}
	}
	if s.ntasks >= maxTasks {
		s.mu.Unlock()
		panic("verifsim: too many tasks")
	}
	t := &task{id: s.ntasks, goid: g, wake: make(chan struct{})}
	// PCT priority: derived from the schedule tape at registration (deterministic:
	// only one unregistered goroutine can be running at a time)
	t.prio = (uint32(s.ntasks)*2654435761 ^ s.salt) * 0x5bd1e995
	t.prio ^= t.prio >> 15
	s.tasks[s.ntasks] = t
	s.ntasks++
	s.mu.Unlock()
	return t
}

// TaskID returns the logical id of the calling task (-1 outside a simulation).
//
//go:norace
func TaskID() int {
	s := active
	if s == nil {
		return -1
	}
	raceDisable()
	id := s.current().id
	raceEnable()
	return id
}

//go:norace
func (s *Sim) poke() {
	select {
	case s.kick <- struct{}{}:
	default:
	}
}

// Yield parks the calling task until the scheduler releases it.
//
//go:norace
func Yield(site string, kind string) {
	s := active
	if s == nil {
		return
	}
	raceDisable()
	t := s.current()
	t.site, t.kind = site, kind
	s.mu.Lock()
	if s.trigKind != "" && !s.trigFired && kind == s.trigKind {
		s.trigCount++
		if s.trigCount == s.trigN {
			s.fireLocked()
		}
	}
	t.state = 1
	s.parked[s.nparked] = t
	s.nparked++
	s.mu.Unlock()
	s.poke()
	<-t.wake
	raceEnable()
}

//go:norace
func (s *Sim) fireLocked() {
	s.trigFired = true
	for i := 0; i < s.ntrigw; i++ {
		w := s.trigw[i]
		w.state = 1
		s.parked[s.nparked] = w
		s.nparked++
		s.force = w.id
		s.trigw[i] = nil
	}
	s.ntrigw = 0
}

// SetTrigger arms the trigger: the n-th Yield of the given kind (counted from now)
// fires it. Used to land a cancellation exactly before a chosen poll of the cancel flag.
//
//go:norace
func SetTrigger(kind string, n int) {
	s := active
	if s == nil {
		return
	}
	raceDisable()
	s.mu.Lock()
	s.trigKind, s.trigN, s.trigCount, s.trigFired = kind, n, 0, false
	s.mu.Unlock()
	raceEnable()
}

// TriggerCount reports how many Yields of the armed kind were seen since SetTrigger.
//
//go:norace
func TriggerCount() int {
	s := active
	if s == nil {
		return 0
	}
	return s.trigCount
}

// FireTrigger fires the trigger now (releases WaitTrigger callers) if it has not fired.
//
//go:norace
func FireTrigger() {
	s := active
	if s == nil {
		return
	}
	raceDisable()
	s.mu.Lock()
	if !s.trigFired {
		s.fireLocked()
	}
	s.mu.Unlock()
	raceEnable()
}

// WaitTrigger parks the calling task until the trigger fires; the scheduler then runs
// it before anything else.
//
//go:norace
func WaitTrigger() {
	s := active
	if s == nil {
		return
	}
	raceDisable()
	t := s.current()
	t.site, t.kind = "harness", "trigger"
	s.mu.Lock()
	if s.trigFired {
		s.mu.Unlock()
		raceEnable()
		return
	}
	t.state = 3
	s.trigw[s.ntrigw] = t
	s.ntrigw++
	s.mu.Unlock()
	s.poke()
	<-t.wake
	raceEnable()
}

// WaitUnlock parks the calling task until some mutex is released (see simgen rule 5).
//
//go:norace
func WaitUnlock(site string) {
	s := active
	if s == nil {
		runtime.Gosched()
		return
	}
	raceDisable()
	t := s.current()
	t.site, t.kind = site, "lockwait"
	s.mu.Lock()
	t.state = 2
	s.lockw[s.nlockw] = t
	s.nlockw++
	s.mu.Unlock()
	s.poke()
	<-t.wake
	raceEnable()
}

//go:norace
func NotifyUnlock() {
	s := active
	if s == nil {
		return
	}
	raceDisable()
	s.mu.Lock()
	for i := 0; i < s.nlockw; i++ {
		t := s.lockw[i]
		t.state = 1
		s.parked[s.nparked] = t
		s.nparked++
		s.lockw[i] = nil
	}
	s.nlockw = 0
	s.mu.Unlock()
	raceEnable()
}

// Sleep replaces time.Sleep: the bubble clock decides when it ends, and the wake-up
// is a scheduling point.
func Sleep(d time.Duration) {
	if active == nil {
		time.Sleep(d)
		return
	}
	Yield("sleep", "sleep<")
	time.Sleep(d)
	Yield("sleep", "sleep>")
}

// Go spawns a harness client task; the go statement runs with race handling on, so
// everything the caller did before happens-before the client.
func Go(f func()) {
	go func() {
		Yield("client", "start")
		f()
	}()
	Yield("client", "go")
}

// Run executes root as task 0 under the seeded scheduler inside a synctest bubble.
func Run(t *testing.T, cfg Config, root func()) *Sim {
	if cfg.MaxSteps == 0 {
		cfg.MaxSteps = 3000000
	}
	if cfg.DrainSeconds == 0 {
		cfg.DrainSeconds = 3
	}
	if cfg.Sched == nil {
		cfg.Sched = ReplayTape(nil)
	}
	s := &Sim{cfg: cfg, last: -1, force: -1, events: make([]Event, maxEvents)}
	for i := range s.pctChange {
		s.pctChange[i] = -1
	}
	func() {
		defer func() {
			if r := recover(); r != nil {
				s.Panic = r
			}
			active = nil
		}()
		synctest.Test(t, func(t *testing.T) {
			start := time.Now()
			s.kick = make(chan struct{}, 1)
			if cfg.Policy == PolicyPCT {
				for i := range s.pctChange {
					s.pctChange[i] = cfg.Sched.Next(4000)
				}
				s.salt = uint32(cfg.Sched.Next(1 << 30))
			}
			if cfg.Policy == PolicyStall {
				// the victim is the k-th task to register; small k = a client or an early
				// goroutine, larger k = something spawned later (a handler, a worker)
				s.stallID = cfg.Sched.Next(8) * (1 + cfg.Sched.Next(12))
			}
			if cfg.Stdio != nil {
				cfg.Stdio.init()
			}
			active = s
			resetPerRun()
			finished := make(chan struct{})
			go func() {
				Yield("root", "start")
				root()
				close(finished) // real edge: root task -> whoever waits for Run
				raceDisable()
				s.mu.Lock()
				s.done = true
				s.mu.Unlock()
				s.poke()
				raceEnable()
			}()
			raceDisable()
			s.loop()
			raceEnable()
			<-finished
			s.SimTime = time.Since(start)
		})
	}()
	active = nil
	if s.BudgetExceeded {
		s.Panic = "verifsim: step budget exceeded (livelock or unbounded work)"
	}
	for _, f := range afterRunHooks {
		f()
	}
	s.Tasks = s.ntasks
	return s
}

// kth returns the index in s.parked of the k-th smallest id among the first n.
//
//go:norace
func (s *Sim) kth(n int, k int) int {
	idx := -1
	for rank := 0; rank <= k; rank++ {
		best := -1
		for i := 0; i < n; i++ {
			if idx >= 0 && s.parked[i].id <= s.parked[idx].id {
				continue
			}
			if best < 0 || s.parked[i].id < s.parked[best].id {
				best = i
			}
		}
		idx = best
	}
	return idx
}

//go:norace
func (s *Sim) pick(n int) int {
	// returns the index in s.parked of the task to release
	lowest, highest := 0, 0
	for i := 1; i < n; i++ {
		if s.parked[i].id < s.parked[lowest].id {
			lowest = i
		}
		if s.parked[i].id > s.parked[highest].id {
			highest = i
		}
	}
	if s.force >= 0 {
		f := s.force
		s.force = -1
		for i := 0; i < n; i++ {
			if s.parked[i].id == f {
				return i
			}
		}
	}
	if n == 1 {
		return 0
	}
	switch s.cfg.Policy {
	case PolicyLowest:
		return lowest
	case PolicyHighest:
		return highest
	case PolicyRandom:
		return s.kth(n, s.cfg.Sched.Next(n))
	case PolicySticky:
		if s.last >= 0 {
			for i := 0; i < n; i++ {
				if s.parked[i].id == s.last {
					if s.cfg.Sched.Next(4) != 0 {
						return i
					}
					break
				}
			}
		}
		return s.kth(n, s.cfg.Sched.Next(n))
	case PolicyPCT:
		for c := 0; c < len(s.pctChange); c++ {
			if s.pctChange[c] == s.Steps && s.last >= 0 {
				// demote the task that ran last
				for i := 0; i < s.ntasks; i++ {
					if s.tasks[i].id == s.last {
						s.tasks[i].prio = uint32(c)
					}
				}
			}
		}
		best := 0
		for i := 1; i < n; i++ {
			if s.parked[i].prio > s.parked[best].prio {
				best = i
			}
		}
		return best
	case PolicyStall:
		// choose at random among the tasks other than the stalled one
		others := 0
		victim := -1
		nsites := len(s.cfg.StallSites)
		for i := 0; i < n; i++ {
			slow := s.parked[i].id == s.stallID
			if nsites > 0 {
				slow = false
				for j := 0; j < nsites; j++ {
					if s.parked[i].site == s.cfg.StallSites[j] {
						slow = true
					}
				}
			}
			if slow {
				victim = i
				s.parked[i].prio = 1
			} else {
				s.parked[i].prio = 0
				others++
			}
		}
		if others == 0 {
			return victim
		}
		k := s.cfg.Sched.Next(others)
		// k-th smallest id among the others
		idx := -1
		for rank := 0; rank <= k; rank++ {
			best := -1
			for i := 0; i < n; i++ {
				if s.parked[i].prio == 1 || (idx >= 0 && s.parked[i].id <= s.parked[idx].id) {
					continue
				}
				if best < 0 || s.parked[i].id < s.parked[best].id {
					best = i
				}
			}
			idx = best
		}
		return idx
	case PolicyRoundRobin:
		// smallest id greater than last, else lowest
		best := -1
		for i := 0; i < n; i++ {
			if s.parked[i].id > s.last && (best < 0 || s.parked[i].id < s.parked[best].id) {
				best = i
			}
		}
		if best >= 0 {
			return best
		}
		return lowest
	}
	return lowest
}

//go:norace
func (s *Sim) loop() {
	drained := 0
	for {
		synctest.Wait()
		s.mu.Lock()
		if n := s.nparked; n > 0 {
			drained = 0
			if n > s.MaxRunnable {
				s.MaxRunnable = n
			}
			if n >= 2 {
				s.ChoicePoints++
			}
			idx := s.pick(n)
			p := s.parked[idx]
			s.parked[idx] = s.parked[n-1]
			s.parked[n-1] = nil
			s.nparked--
			p.state = 0
			s.last = p.id
			s.Steps++
			atomic.AddInt64(&progress, 1)
			h := s.TraceHash
			h = (h ^ uint64(p.id)) * 1099511628211
			for i := 0; i < len(p.site); i++ {
				h = (h ^ uint64(p.site[i])) * 1099511628211
			}
			for i := 0; i < len(p.kind); i++ {
				h = (h ^ uint64(p.kind[i])) * 1099511628211
			}
			s.TraceHash = h
			if s.NTrace < traceKeep {
				s.Trace[s.NTrace] = TraceEntry{p.id, p.site, p.kind}
				s.NTrace++
			}
			over := s.Steps > s.cfg.MaxSteps
			s.mu.Unlock()
			if over {
				// Stop scheduling: every task stays parked, the bubble reports a deadlock
				// (a panic raised here, on the bubble's root goroutine, could not be
				// recovered by Run), and Run replaces the text.
				s.BudgetExceeded = true
				return
			}
			p.wake <- struct{}{}
			continue
		}
		done := s.done
		s.mu.Unlock()
		if done {
			// let simulated time pass so that timers fire and their goroutines exit;
			// whatever still remains blocked afterwards is reported by the bubble as a
			// deadlock ("blocked goroutines remain") when Run returns
			if drained >= s.cfg.DrainSeconds {
				return
			}
			drained++
			time.Sleep(time.Second)
			continue
		}
		// nothing runnable: block; the bubble clock jumps to the next timer, or the
		// bubble panics with a deadlock report when there is none
		<-s.kick
	}
}

// LeakedOpenFileSlots: slots of esbuild's open-file limiter that were still taken when the
// last run ended (set by the internal/fs hook; every build of the run had returned by then).
var LeakedOpenFileSlots int

var perRunResets []func()

// RegisterReset lets in-package hook files reset process-global state at the start of
// every simulated run, so that a run is a pure function of its tapes.
func RegisterReset(f func()) { perRunResets = append(perRunResets, f) }

var afterRunHooks []func()

// RegisterAfterRun registers a function called outside the bubble when a run has ended.
func RegisterAfterRun(f func()) { afterRunHooks = append(afterRunHooks, f) }

func resetPerRun() {
	for _, f := range perRunResets {
		f()
	}
}

// ---- sync.Cond, played by the simulator (see simgen: x.Wait / x.Signal / x.Broadcast) ----

// AsCond reports whether p points at a *sync.Cond (or a sync.Cond value) while a
// simulation is active. Outside a simulation it always says no, so the real methods run.
//
//go:norace
func AsCond(p interface{}) (*sync.Cond, bool) {
	if active == nil {
		return nil, false
	}
	switch v := p.(type) {
	case **sync.Cond:
		return *v, *v != nil
	case *sync.Cond:
		return v, true
	}
	return nil, false
}

// CondWait is sync.Cond.Wait under the simulator: the caller holds c.L.
//
//go:norace
func CondWait(c *sync.Cond, site string) {
	s := active
	if s == nil {
		c.Wait()
		return
	}
	raceDisable()
	t := s.current()
	t.site, t.kind = site, "condwait"
	s.mu.Lock()
	if s.ncondw >= len(s.condw) {
		s.mu.Unlock()
		raceEnable()
		panic("verifsim: too many condition waiters")
	}
	s.condw[s.ncondw] = condWaiter{c, t}
	s.ncondw++
	t.state = 4
	s.mu.Unlock()
	raceEnable()
	c.L.Unlock()
	NotifyUnlock()
	raceDisable()
	s.poke()
	<-t.wake
	raceEnable()
	if tl, ok := c.L.(interface{ TryLock() bool }); ok {
		for !tl.TryLock() {
			WaitUnlock(site)
		}
	} else {
		c.L.Lock()
	}
}

//go:norace
func condRelease(c *sync.Cond, all bool) {
	s := active
	if s == nil {
		if all {
			c.Broadcast()
		} else {
			c.Signal()
		}
		return
	}
	raceDisable()
	s.mu.Lock()
	j := 0
	released := false
	for i := 0; i < s.ncondw; i++ {
		w := s.condw[i]
		if w.c == c && (all || !released) {
			w.t.state = 1
			s.parked[s.nparked] = w.t
			s.nparked++
			released = true
			continue
		}
		s.condw[j] = w
		j++
	}
	for i := j; i < s.ncondw; i++ {
		s.condw[i] = condWaiter{}
	}
	s.ncondw = j
	s.mu.Unlock()
	raceEnable()
}

func CondSignal(c *sync.Cond)    { condRelease(c, false) }
func CondBroadcast(c *sync.Cond) { condRelease(c, true) }
