package verifsim

// The simulated network for Serve (pkg/api/serve_other.go): net.Listen is redirected
// here. A listener is an in-bubble rendezvous: the harness's HTTP clients Dial a port and
// get one end of a net.Pipe, the server's Accept gets the other. net.Pipe is synchronous
// and blocks durably inside a synctest bubble, so the real net/http server and client run
// on it under the bubble clock, and which side proceeds is decided by the scheduler at
// the scheduling points of the instrumented esbuild code around them.

import (
	"net"
	"strconv"
	"sync"
	"syscall"
)

type simListener struct {
	host   string
	port   int
	conns  chan net.Conn
	closed chan struct{}
	once   sync.Once
}

const maxListeners = 32

// NetStats counts what happened on the simulated network during the current run.
type NetStatsT struct {
	Listens, ListenInUse, Accepts, Dials, DialsRefused int
}

var netMu sync.Mutex
var listeners [maxListeners]*simListener
var nlisteners int
var nextEphemeral int
var NetStats NetStatsT

func init() {
	RegisterReset(func() {
		netMu.Lock()
		for i := range listeners {
			listeners[i] = nil
		}
		nlisteners = 0
		nextEphemeral = 49152
		NetStats = NetStatsT{}
		netMu.Unlock()
	})
}

// Listen replaces net.Listen in pkg/api.
func Listen(network, address string) (net.Listener, error) {
	if !Active() {
		return net.Listen(network, address)
	}
	Yield("net", "listen")
	host, portText, err := net.SplitHostPort(address)
	if err != nil {
		return nil, &net.OpError{Op: "listen", Net: network, Err: err}
	}
	port, err := strconv.Atoi(portText)
	if err != nil || port < 0 || port > 0xFFFF {
		return nil, &net.OpError{Op: "listen", Net: network, Err: &net.AddrError{Err: "invalid port", Addr: portText}}
	}
	netMu.Lock()
	defer netMu.Unlock()
	NetStats.Listens++
	if port == 0 {
		port = nextEphemeral
		nextEphemeral++
	}
	for i := 0; i < nlisteners; i++ {
		if l := listeners[i]; l != nil && l.port == port && !l.isClosed() {
			NetStats.ListenInUse++
			return nil, &net.OpError{Op: "listen", Net: network, Err: syscall.EADDRINUSE}
		}
	}
	if nlisteners >= maxListeners {
		return nil, &net.OpError{Op: "listen", Net: network, Err: syscall.EMFILE}
	}
	l := &simListener{host: host, port: port, conns: make(chan net.Conn), closed: make(chan struct{})}
	listeners[nlisteners] = l
	nlisteners++
	return l, nil
}

func (l *simListener) isClosed() bool {
	select {
	case <-l.closed:
		return true
	default:
		return false
	}
}

func (l *simListener) Accept() (net.Conn, error) {
	select {
	case c := <-l.conns:
		netMu.Lock()
		NetStats.Accepts++
		netMu.Unlock()
		return c, nil
	case <-l.closed:
		return nil, &net.OpError{Op: "accept", Net: "tcp", Err: net.ErrClosed}
	}
}

func (l *simListener) Close() error {
	l.once.Do(func() { close(l.closed) })
	return nil
}

func (l *simListener) Addr() net.Addr {
	ip := net.ParseIP(l.host)
	if ip == nil {
		ip = net.IPv4(127, 0, 0, 1)
	}
	return &net.TCPAddr{IP: ip, Port: l.port}
}

// Dial connects a harness client to the simulated listener on the port. It returns
// ECONNREFUSED when nothing listens there (any more).
func Dial(port int) (net.Conn, error) {
	netMu.Lock()
	var l *simListener
	for i := 0; i < nlisteners; i++ {
		if x := listeners[i]; x != nil && x.port == port && !x.isClosed() {
			l = x
		}
	}
	NetStats.Dials++
	netMu.Unlock()
	refused := &net.OpError{Op: "dial", Net: "tcp", Err: syscall.ECONNREFUSED}
	if l == nil {
		netMu.Lock()
		NetStats.DialsRefused++
		netMu.Unlock()
		return nil, refused
	}
	c, s := net.Pipe()
	select {
	case l.conns <- s:
		return c, nil
	case <-l.closed:
		netMu.Lock()
		NetStats.DialsRefused++
		netMu.Unlock()
		return nil, refused
	}
}

// Occupy makes a port busy (an unrelated process listening there).
func Occupy(port int) {
	netMu.Lock()
	defer netMu.Unlock()
	if nlisteners < maxListeners {
		listeners[nlisteners] = &simListener{host: "127.0.0.1", port: port, conns: make(chan net.Conn), closed: make(chan struct{})}
		nlisteners++
	}
}
