package api

// Virtual file added by /verif/simgen through -overlay; it does not exist in /repo.
// The accessor C09's anchor anticipates: the dirty paths reported by a context's
// current watch predicates, synchronously (no polling delay). It adds no logic of its
// own: it runs the real rebuild() in watch mode and hands back the real closures.

import "sort"

// VerifWatchRebuild rebuilds ctx in watch mode and returns the build result together
// with a function that evaluates every watch predicate of that build and returns the
// paths reported dirty (sorted by the caller).
func VerifWatchRebuild(c BuildContext) (BuildResult, func() []string, bool) {
	ctx, ok := c.(*internalContext)
	if !ok {
		return BuildResult{}, nil, false
	}
	ctx.mutex.Lock()
	ctx.args.options.WatchMode = true
	ctx.mutex.Unlock()
	state := ctx.rebuild()
	paths := state.watchData.Paths
	// evaluate the predicates in sorted order so that a simulated run is repeatable
	keys := make([]string, 0, len(paths))
	for k := range paths {
		keys = append(keys, k)
	}
	sort.Strings(keys)
	return state.result, func() []string {
		var dirty []string
		for _, k := range keys {
			if p := paths[k](); p != "" {
				dirty = append(dirty, p)
			}
		}
		return dirty
	}, true
}
