package fs

// Virtual file added by /verif/simgen through -overlay; it does not exist in /repo.

import "github.com/evanw/esbuild/pkg/verifsim"

func init() {
	// fileOpenLimit is a package-level channel. Inside a synctest bubble a channel made
	// outside it does not block durably, so each simulated run gets its own, and a
	// plain one is restored afterwards for pass-through use.
	verifsim.RegisterReset(func() { fileOpenLimit = make(chan bool, verifsim.OpenFileLimit()) })
	// (leaked slots of the open-file limiter are read off before the channel is replaced)
	verifsim.RegisterAfterRun(func() {
		verifsim.LeakedOpenFileSlots = len(fileOpenLimit)
		fileOpenLimit = make(chan bool, 32)
	})
}
