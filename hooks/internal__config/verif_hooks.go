package config

// Virtual file added by /verif/simgen through -overlay; it does not exist in /repo.

import "github.com/evanw/esbuild/pkg/verifsim"

func init() {
	verifsim.RegisterReset(func() {
		filterCache = nil
		processedGlobals = nil
	})
}
