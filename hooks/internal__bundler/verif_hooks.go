package bundler

// Virtual file added by /verif/simgen through -overlay; it does not exist in /repo.

import "github.com/evanw/esbuild/pkg/verifsim"

func init() {
	// A run must be a pure function of its tapes: a warm runtime cache performs one lock
	// operation (= one scheduling point) fewer than a cold one.
	verifsim.RegisterReset(func() { globalRuntimeCache = runtimeCache{} })
}
