package verifsvc

// Virtual file added by /verif/simgen through -overlay. Package verifsvc is the real
// cmd/esbuild/{service,stdio_protocol,version}.go re-packaged as a library (package
// clause changed, os.Stdin/os.Stdout/os.Exit redirected to pkg/verifsim); this file only
// exports the entry point.

// RunService runs the real stdio service loop until stdin reaches EOF.
func RunService(sendPings bool) { runService(sendPings) }

// Version is the version string the service announces first.
const Version = esbuildVersion
